#!/bin/bash
# usage: run.sh <property id> [quick|thorough]
# Rebuilds the verifier if stale, then checks one property against /repo's
# current working tree (VERIF_REPO overrides the tree, for the self-test).
cd "$(dirname "$0")" || exit 2
export GOFLAGS=-mod=vendor GOPROXY=off GOSUMDB=off GOTOOLCHAIN=local CARGO_NET_OFFLINE=true PIP_NO_INDEX=1
prop="$1"; tier="${2:-${VERIF_TIER:-quick}}"
if [ -z "$prop" ]; then echo "usage: run.sh <property> [quick|thorough]" >&2; exit 2; fi
if [ ! -x bin/bipverif ] || [ -n "$(find cmd go.mod -newer bin/bipverif -print -quit 2>/dev/null)" ]; then
  go build -o bin/bipverif ./cmd/bipverif || { echo "bipverif: build failed" >&2; exit 2; }
fi
export VERIF_DIR="$(pwd)"
exec ./bin/bipverif check -tier "$tier" "$prop"
