package main

// Conformance of the dependency behind the `nfkd` symbol with the property's
// wording (C04 says "NFKD"): golang.org/x/text (the version the repository is
// built with, vendored here too) is compared with an independent
// implementation (python3 unicodedata) on a small fixed set of strings. This
// is a bounded audit of an assumption. It is part of the quick tier because
// one class of inputs is KNOWN to differ (runs of more than 30 combining
// marks: x/text produces the stream-safe form with U+034F inserted), which is
// recorded in known_findings.json.

import (
	"bytes"
	"encoding/hex"
	"fmt"
	"os/exec"
	"strings"

	"golang.org/x/text/unicode/norm"
)

const pyNFKD = `
import sys, unicodedata, hashlib
for line in sys.stdin:
    line = line.strip()
    if not line:
        print("")
        continue
    s = bytes.fromhex(line).decode("utf-8")
    n = unicodedata.normalize("NFKD", s)
    seed = hashlib.pbkdf2_hmac("sha512", n.encode("utf-8"), b"mnemonic", 2048, 64).hex()
    print(n.encode("utf-8").hex() + " " + seed)
`

func (p *Program) conformanceObligations(opts checkOpts) []*Obligation {
	if opts.prop != "C04" {
		return nil
	}
	basic := []string{"abandon ability able", "café", "éèñ", "ＡＢＣ", "한국어", "가격", "あいこくしん", "㍍", "ﬁ", "①", "a　b",
		"a" + strings.Repeat("́", 30), "q̣̇", "q̣̇", "בְּ", "ṩ", "Å", "½"}
	for _, wl := range p.loadWordLists() {
		if len(wl.Words) > 0 {
			basic = append(basic, norm.NFC.String(wl.Words[len(wl.Words)/2]))
		}
	}
	long := []string{"a" + strings.Repeat("́", 31), "a" + strings.Repeat("́", 40), "e" + strings.Repeat("̣", 35) + "x"}
	all := append(append([]string{}, basic...), long...)
	var in bytes.Buffer
	for _, s := range all {
		in.WriteString(hex.EncodeToString([]byte(s)) + "\n")
	}
	cmd := exec.Command("python3", "-c", pyNFKD)
	cmd.Stdin = &in
	out, err := cmd.Output()
	mk := func(name string, ok bool, clause, wit string, hints map[string]string) *Obligation {
		o := &Obligation{Name: "assumption/nfkd/unicode-conformance/" + name, Fn: "assumption", Kind: "audit", Tags: []string{"C04"}, Expect: "unsat", Clause: clause, Hints: hints}
		if ok {
			o.Trivial = true
			o.Result = SolverResult{Status: "unsat", Solver: "bounded-audit"}
		} else {
			o.Failed = true
			o.Reason = wit
		}
		return o
	}
	lines := strings.Split(strings.TrimRight(string(out), "\n"), "\n")
	if err != nil || len(lines) != len(all) {
		// no independent implementation at hand: nothing is claimed either way
		p.conformanceNote = "python3 unicodedata not available: NFKD conformance of x/text not audited in this run"
		return nil
	}
	var obls []*Obligation
	check := func(name string, set []string, offset int, clause string) {
		wit := ""
		hints := map[string]string{}
		for i, s := range set {
			f := strings.Fields(lines[offset+i])
			if len(f) != 2 {
				continue
			}
			got := hex.EncodeToString([]byte(norm.NFKD.String(s)))
			if got != f[0] && wit == "" {
				wit = fmt.Sprintf("x/text NFKD of %q (%d bytes in) is %d bytes, Unicode NFKD (python3 unicodedata) is %d bytes", trunc(s, 24), len(s), len(got)/2, len(f[0])/2)
				hints["hex.mnemonic"] = hex.EncodeToString([]byte(s))
				hints["hex.expected_seed"] = f[1]
			}
		}
		obls = append(obls, mk(name, wit == "", clause, wit, hints))
	}
	check("basic", basic, 0, "x/text NFKD == Unicode NFKD on accented, full-width, Hangul, kana, compatibility and reordering samples and on one word of every list (BOUNDED audit of an assumption)")
	check("long-combining-runs", long, len(basic), "x/text NFKD == Unicode NFKD on strings with a run of more than 30 combining marks (BOUNDED audit of an assumption)")
	p.conformanceNote = fmt.Sprintf("NFKD conformance audit: %d basic and %d long-run samples compared with python3 unicodedata", len(basic), len(long))
	return obls
}
