package main

// The word-list generator (package main in update-wordlist): assumed
// contracts of the I/O it glues together, ghost observations that the
// contract of updateWordlist speaks about, and the ground check of `langs`.

import (
	"fmt"
	"go/ast"
	"go/token"
	"strconv"
	"strings"

	"golang.org/x/tools/go/ssa"
)

// observations made by the assumed contracts above, and their sorts (a name
// not observed on a path denotes an arbitrary value there)
var obsSorts = map[string]string{
	"Get_url": SStr, "Get_err": SErr, "Get_resp": SInt,
	"ReadAll_reader": SInt, "ReadAll_err": SErr, "ReadAll_bytes": SBytes,
	"OpenFile_path": SStr, "OpenFile_flags": SInt, "OpenFile_perm": SInt, "OpenFile_file": SInt, "OpenFile_err": SErr,
	"Execute_tmpl": SInt, "Execute_writer": SInt, "Execute_err": SErr, "Execute_variable": SStr, "Execute_words": SSeq,
	"Close_file": SInt, "BodyClose_body": SInt,
}

func init() {
	obs := func(st *State, name string, sv SV) { st.ghosts[name] = sv }
	regDep("net/http.Get", []string{"next"}, "http.Get(url): returns (resp, err); resp != nil and resp.Body != nil when err == nil", func(ex *Exec, st *State, c *ssa.Call, a []SV) SV {
		resp := ex.fresh("http_resp", SInt)
		e := ex.fresh("http_err", SErr)
		st.assume(Ge(resp, IntLit(0)))
		st.assume(Implies(Eq(e, T(SErr, "nilErr")), Gt(resp, IntLit(0))))
		ex.declareFun("f_extfield_Int", []string{SInt, SInt}, SInt)
		// field #6 of http.Response is Body
		st.assume(Implies(Eq(e, T(SErr, "nilErr")), Gt(App(SInt, "f_extfield_Int", resp, IntLit(6)), IntLit(0))))
		obs(st, "Get_url", a[0])
		obs(st, "Get_err", Scalar(e))
		obs(st, "Get_resp", Scalar(resp))
		return SV{K: KTuple, Tuple: []SV{Scalar(resp), Scalar(e)}}
	})
	readAll := func(ex *Exec, st *State, c *ssa.Call, a []SV) SV {
		e := ex.fresh("readall_err", SErr)
		content := ex.fresh("readall_bytes", SBytes)
		n := ex.fresh("readall_len", SInt)
		st.assume(Ge(n, IntLit(0)))
		st.assume(Lt(n, T(SInt, "4611686018427387904")))
		buf := ex.newByteSlice(st, content, n)
		obs(st, "ReadAll_reader", a[0])
		obs(st, "ReadAll_err", Scalar(e))
		obs(st, "ReadAll_bytes", Scalar(content))
		return SV{K: KTuple, Tuple: []SV{buf, Scalar(e)}}
	}
	regDep("io/ioutil.ReadAll", []string{"BMem", "next"}, "ioutil.ReadAll(r): returns (fresh bytes, err)", readAll)
	regDep("io.ReadAll", []string{"BMem", "next"}, "io.ReadAll(r): returns (fresh bytes, err)", readAll)
	regDep("os.OpenFile", []string{"next"}, "os.OpenFile(name, flag, perm): returns (file, err); file != nil when err == nil", func(ex *Exec, st *State, c *ssa.Call, a []SV) SV {
		f := ex.fresh("os_file", SInt)
		e := ex.fresh("open_err", SErr)
		st.assume(Ge(f, IntLit(0)))
		st.assume(Implies(Eq(e, T(SErr, "nilErr")), Gt(f, IntLit(0))))
		obs(st, "OpenFile_path", a[0])
		obs(st, "OpenFile_flags", a[1])
		obs(st, "OpenFile_perm", a[2])
		obs(st, "OpenFile_file", Scalar(f))
		obs(st, "OpenFile_err", Scalar(e))
		return SV{K: KTuple, Tuple: []SV{Scalar(f), Scalar(e)}}
	})
	regDep("(*os.File).Close", nil, "f.Close(): returns an error (ignored by the caller)", func(ex *Exec, st *State, c *ssa.Call, a []SV) SV {
		obs(st, "Close_file", a[0])
		return Scalar(ex.fresh("close_err", SErr))
	})
	regDep("invoke io.ReadCloser.Close", nil, "body.Close(): returns an error (ignored by the caller)", func(ex *Exec, st *State, c *ssa.Call, a []SV) SV {
		obs(st, "BodyClose_body", a[0])
		return Scalar(ex.fresh("close_err", SErr))
	})
	regDep("(*html/template.Template).Execute", nil, "t.Execute(w, data): NO CONTRACT on what is written (html/template is an interpreter with contextual escaping); only the arguments are observed; returns an error", func(ex *Exec, st *State, c *ssa.Call, a []SV) SV {
		e := ex.fresh("exec_err", SErr)
		obs(st, "Execute_tmpl", a[0])
		obs(st, "Execute_writer", a[1])
		obs(st, "Execute_err", Scalar(e))
		if a[2].K == KStruct && len(a[2].Fields) == 2 {
			obs(st, "Execute_variable", a[2].Fields[0])
			obs(st, "Execute_words", Scalar(ex.sliceSeq(st, a[2].Fields[1])))
		}
		return Scalar(e)
	})
	regDep("html/template.New", []string{"next"}, "template.New(name): fresh template", func(ex *Exec, st *State, c *ssa.Call, a []SV) SV {
		return Scalar(ex.allocRef(st))
	})
	regDep("(*html/template.Template).Parse", nil, "t.Parse(text): returns (t, err)", func(ex *Exec, st *State, c *ssa.Call, a []SV) SV {
		return SV{K: KTuple, Tuple: []SV{a[0], Scalar(ex.fresh("parse_err", SErr))}}
	})
	regDep("html/template.Must", nil, "template.Must(t, err): t (panics if err != nil: the template text is a constant, checked by the bounded run)", func(ex *Exec, st *State, c *ssa.Call, a []SV) SV {
		return a[0]
	})
}

// toolLangs reads the `langs` composite literal of update-wordlist/main.go.
func (p *Program) toolLangs() (map[string]string, []string, string) {
	for _, pk := range p.allPkgs() {
		if pk.PkgPath != modPath+"/update-wordlist" {
			continue
		}
		for _, f := range pk.Syntax {
			for _, d := range f.Decls {
				gd, ok := d.(*ast.GenDecl)
				if !ok || gd.Tok != token.VAR {
					continue
				}
				for _, sp := range gd.Specs {
					vs := sp.(*ast.ValueSpec)
					for i, nm := range vs.Names {
						if nm.Name != "langs" || i >= len(vs.Values) {
							continue
						}
						cl, ok := vs.Values[i].(*ast.CompositeLit)
						if !ok {
							return nil, nil, "langs is not a composite literal"
						}
						out := map[string]string{}
						var order []string
						for _, e := range cl.Elts {
							kv, ok := e.(*ast.KeyValueExpr)
							if !ok {
								return nil, nil, "langs element is not key: value"
							}
							k, ok1 := kv.Key.(*ast.BasicLit)
							v, ok2 := kv.Value.(*ast.BasicLit)
							if !ok1 || !ok2 {
								return nil, nil, "langs element is not a pair of string literals"
							}
							ks, _ := strconv.Unquote(k.Value)
							vs_, _ := strconv.Unquote(v.Value)
							if _, dup := out[ks]; dup {
								return nil, nil, "duplicate key " + ks
							}
							out[ks] = vs_
							order = append(order, ks)
						}
						return out, order, ""
					}
				}
			}
		}
	}
	return nil, nil, "update-wordlist/main.go: variable langs not found"
}

func (p *Program) toolGroundObligations() []*Obligation {
	var obls []*Obligation
	langs, _, bad := p.toolLangs()
	mk := func(name string, ok bool, clause, wit string) {
		o := groundObl("tool/"+name, []string{"C17"}, ok, clause, wit)
		obls = append(obls, o)
	}
	mk("langs-literal", bad == "", "langs is a literal table of string pairs", bad)
	if bad != "" {
		return obls
	}
	// each Language constant exactly once as a value; key is the file stem of that name
	seen := map[string]string{}
	wit := ""
	for k, v := range langs {
		if _, ok := p.Lang.ByName[v]; !ok {
			wit = fmt.Sprintf("value %q is not a Language constant / wordlist variable", v)
		}
		if prev, dup := seen[v]; dup {
			wit = fmt.Sprintf("variable %s is the target of both %q and %q", v, prev, k)
		}
		seen[v] = k
		if want := strings.TrimSuffix(refFileName(v), ".txt"); want != k && wit == "" {
			wit = fmt.Sprintf("file stem %q is paired with variable %s (expected %q)", k, v, want)
		}
	}
	for _, n := range p.Lang.Names {
		if _, ok := seen[n]; !ok && wit == "" {
			wit = "no entry produces variable " + n
		}
	}
	mk("langs-pairs-stem-with-variable", wit == "", "langs pairs each upstream file stem with the exported variable of the matching name, each of the ten languages exactly once", wit)
	// the variable named is the one Language.list returns for the constant of that name: list/shape ensures (C08) ties wlref to names
	return obls
}
