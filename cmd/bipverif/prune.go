package main

// Prelude pruning: an axiom is kept only if it can be relevant to the VC
// (all symbols of one of its patterns occur). Dropping assumptions is sound.

import (
	"regexp"
	"strings"
	"sync"
)

type preCmd struct {
	text     string
	isAssert bool
	syms     map[string]bool   // all interesting symbols
	pats     []map[string]bool // per pattern
	defines  string            // define-fun name ("" otherwise)
}

var reBound = regexp.MustCompile(`\(([A-Za-z_][A-Za-z0-9_]*) (?:Int|Bool|Str|Bytes|SSeq|Err|Any|\(Array [^()]*(?:\([^()]*\))?[^()]*\))\)`)
var reSym = regexp.MustCompile(`[A-Za-z_][A-Za-z0-9_!.]*`)

var boringSym = map[string]bool{"assert": true, "forall": true, "exists": true, "and": true, "or": true, "not": true,
	"ite": true, "let": true, "Int": true, "Bool": true, "Str": true, "Bytes": true, "SSeq": true, "Err": true, "Any": true,
	"Array": true, "select": true, "store": true, "div": true, "mod": true, "true": true, "false": true, "pattern": true,
	"distinct": true, "as": true, "const": true, "String": true}

func symsOf(s string) map[string]bool {
	m := map[string]bool{}
	for _, w := range reSym.FindAllString(s, -1) {
		if !boringSym[w] {
			m[w] = true
		}
	}
	return m
}

// splitCommands splits SMT-LIB text into top-level s-expressions.
func splitCommands(s string) []string {
	var out []string
	depth, start := 0, -1
	inStr := false
	for i := 0; i < len(s); i++ {
		c := s[i]
		if inStr {
			if c == '"' {
				inStr = false
			}
			continue
		}
		switch c {
		case '"':
			inStr = true
		case ';':
			for i < len(s) && s[i] != '\n' {
				i++
			}
		case '(':
			if depth == 0 {
				start = i
			}
			depth++
		case ')':
			depth--
			if depth == 0 && start >= 0 {
				out = append(out, s[start:i+1])
				start = -1
			}
		}
	}
	return out
}

func parsePre(text string) []preCmd {
	var cmds []preCmd
	for _, c := range splitCommands(text) {
		pc := preCmd{text: c}
		switch {
		case strings.HasPrefix(c, "(assert"):
			pc.isAssert = true
			pc.syms = symsOf(c)
			bound := map[string]bool{}
			for _, m := range reBound.FindAllStringSubmatch(c, -1) {
				bound[m[1]] = true
			}
			for s := range bound {
				delete(pc.syms, s)
			}
			// bound variable names are harmless extra symbols (never in U)
			rest := c
			for {
				k := strings.Index(rest, ":pattern (")
				if k < 0 {
					break
				}
				rest = rest[k+len(":pattern ("):]
				// pattern runs to the matching paren
				depth, j := 1, 0
				for j < len(rest) && depth > 0 {
					if rest[j] == '(' {
						depth++
					} else if rest[j] == ')' {
						depth--
					}
					j++
				}
				ps := symsOf(rest[:j])
				for s := range ps {
					if bound[s] {
						delete(ps, s)
					}
				}
				pc.pats = append(pc.pats, ps)
				rest = rest[j:]
			}
		case strings.HasPrefix(c, "(define-fun "):
			f := strings.Fields(c[len("(define-fun "):])
			pc.defines = f[0]
			pc.syms = symsOf(c)
		}
		cmds = append(cmds, pc)
	}
	return cmds
}

var preParseCache sync.Map

func pruneScript(prelude, body string) string {
	var cmds []preCmd
	if v, ok := preParseCache.Load(prelude); ok {
		cmds = v.([]preCmd)
	} else {
		cmds = parsePre(prelude)
		preParseCache.Store(prelude, cmds)
	}
	U := symsOf(body)
	defs := map[string]map[string]bool{}
	for _, c := range cmds {
		if c.defines != "" {
			defs[c.defines] = c.syms
		}
	}
	expandDefs := func() bool {
		changed := false
		for d, ss := range defs {
			if U[d] {
				for s := range ss {
					if !U[s] {
						U[s] = true
						changed = true
					}
				}
			}
		}
		return changed
	}
	keep := make([]bool, len(cmds))
	for {
		changed := expandDefs()
		for i, c := range cmds {
			if !c.isAssert || keep[i] {
				continue
			}
			rel := false
			if len(c.pats) > 0 {
				for _, p := range c.pats {
					all := true
					for s := range p {
						if !U[s] {
							all = false
							break
						}
					}
					if all && len(p) > 0 {
						rel = true
						break
					}
				}
			} else {
				for s := range c.syms {
					if U[s] {
						rel = true
						break
					}
				}
			}
			if rel {
				keep[i] = true
				changed = true
				for s := range c.syms {
					U[s] = true
				}
			}
		}
		if !changed {
			break
		}
	}
	var b strings.Builder
	for i, c := range cmds {
		if c.isAssert && !keep[i] {
			continue
		}
		b.WriteString(c.text)
		b.WriteByte('\n')
	}
	return b.String()
}
