package main

// Translation of contract expressions (Go expression syntax) to SMT terms.

import (
	"bytes"
	"fmt"
	"go/ast"
	"go/constant"
	"go/printer"
	"go/token"
	"go/types"
	"sort"
	"strconv"
	"strings"

	"golang.org/x/tools/go/ssa"
)

type calleeEnv struct {
	fc     *FuncContract
	params map[string]SV
	lets   map[string]SV
	fn     *ssa.Function
}

type specCtx struct {
	mode      string // entry loop exit exitinv callpre callpost lemma
	results   []SV
	ghosts    []ghostVal
	callee    *calleeEnv
	oldState  *State
	headState *State // loop-head state for athead(e)
	bound     map[string]Term
	inOld     bool
}

func (c *specCtx) withBound(name string, t Term) *specCtx {
	n := *c
	n.bound = map[string]Term{}
	for k, v := range c.bound {
		n.bound[k] = v
	}
	n.bound[name] = t
	return &n
}

func exprString(e ast.Expr) string {
	var b bytes.Buffer
	_ = printer.Fprint(&b, token.NewFileSet(), e)
	return b.String()
}

type specError string

func (ex *Exec) specFail(f string, a ...interface{}) {
	panic(unsupported("contract: " + fmt.Sprintf(f, a...)))
}

func (ex *Exec) specBool(st *State, e ast.Expr, ctx *specCtx) Term {
	sv := ex.spec(st, e, ctx)
	if sv.K != KScalar || sv.T.Sort != SBool {
		ex.specFail("boolean expected: %s", exprString(e))
	}
	return sv.T
}

func (ex *Exec) specTerm(st *State, e ast.Expr, ctx *specCtx) Term {
	sv := ex.spec(st, e, ctx)
	if sv.K != KScalar {
		ex.specFail("scalar expected: %s", exprString(e))
	}
	return sv.T
}

// coerce converts a value to the wanted sort where a canonical view exists.
func (ex *Exec) coerce(st *State, sv SV, want string, e ast.Expr) Term {
	switch {
	case sv.K == KScalar && sv.T.Sort == want:
		return sv.T
	case sv.K == KSlice && want == SSeq && sv.Elem == "string":
		return ex.sliceSeq(st, sv)
	case sv.K == KSlice && want == SBytes && sv.Elem == "byte":
		return ex.sliceBytes(st, sv)
	case sv.K == KArray && sv.T.Sort == want:
		return sv.T
	}
	got := "?"
	if sv.K == KScalar {
		got = sv.T.Sort
	}
	ex.specFail("sort mismatch in %s: want %s, got %s", exprString(e), want, got)
	return Term{}
}

func (ex *Exec) lookupLocal(st *State, name string) (SV, bool) {
	if ex.fn == nil {
		return SV{}, false
	}
	var found *ssa.Alloc
	// clauses that moved with their loop into a helper speak about the helper's locals first
	if ex.curLoop != nil && ex.curLoop.fn != ex.fn {
		for a := range st.cells {
			if a.Comment == name && a.Parent() == ex.curLoop.fn {
				if found == nil || a.Pos() < found.Pos() {
					found = a
				}
			}
		}
	}
	if found == nil {
		for a := range st.cells {
			if a.Comment == name {
				if found == nil || a.Pos() < found.Pos() {
					found = a
				}
			}
		}
	}
	if found != nil {
		return st.cells[found], true
	}
	// renamed local: fall back to "the k-th local of that type" recorded on the
	// unchanged tree (contracts/locals.json), so that a pure rename does not
	// by itself break a proof
	if lt, ok := ex.p.localsTable[ex.name][name]; ok {
		k := 0
		var allocs []*ssa.Alloc
		for _, b := range ex.fn.Blocks {
			for _, in := range b.Instrs {
				if a, ok := in.(*ssa.Alloc); ok && a.Comment != "" && a.Comment != "defer$stack" {
					allocs = append(allocs, a)
				}
			}
		}
		sort.Slice(allocs, func(i, j int) bool { return allocs[i].Pos() < allocs[j].Pos() })
		for _, a := range allocs {
			if a.Type().String() == lt.Type {
				k++
				if k == lt.Ordinal {
					if sv, ok := st.cells[a]; ok {
						// only if the recorded name is really gone (not shadowed away)
						return sv, true
					}
				}
			}
		}
	}
	return SV{}, false
}

func (ex *Exec) lookupIdent(st *State, name string, ctx *specCtx) SV {
	if t, ok := ctx.bound[name]; ok {
		return Scalar(t)
	}
	switch name {
	case "true":
		return Scalar(TTrue)
	case "false":
		return Scalar(TFalse)
	case "nilErr":
		return Scalar(T(SErr, "nilErr"))
	case "emptyB":
		return Scalar(T(SBytes, "f_emptyB"))
	case "space":
		return Scalar(T(SStr, "lit_space"))
	case "u3000":
		return Scalar(T(SStr, "lit_u3000"))
	case "nextRef":
		return Scalar(st.next)
	case "iter":
		// number of completed iterations of the loop whose contract is being interpreted,
		// whatever form the loop has (range loop: hidden index + 1; counting loop: the
		// variable compared in the loop condition)
		if ex.curLoop != nil {
			if t, ok := ex.iterTerm(st, ex.curLoop); ok {
				return Scalar(t)
			}
		}
		ex.specFail("iter: cannot identify the iteration counter of this loop")
	}
	for _, g := range ctx.ghosts {
		if g.name == name {
			return g.sv
		}
	}
	// named results of the function whose contract is being interpreted
	if len(ctx.results) > 0 {
		var sigFn *ssa.Function
		if ctx.callee != nil {
			sigFn = ctx.callee.fn
		} else {
			sigFn = ex.fn
		}
		if sigFn != nil {
			rs := sigFn.Signature.Results()
			for i := 0; i < rs.Len() && i < len(ctx.results); i++ {
				if rs.At(i).Name() == name && name != "" && name != "_" {
					return ctx.results[i]
				}
			}
		}
	}
	if name == "result" || name == "result0" {
		if len(ctx.results) > 0 {
			return ctx.results[0]
		}
		ex.specFail("result used outside a postcondition")
	}
	if name == "result1" || name == "err" {
		if name == "err" {
			for _, r := range ctx.results {
				if r.K == KScalar && r.T.Sort == SErr {
					return r
				}
			}
		}
		if len(ctx.results) > 1 {
			return ctx.results[1]
		}
	}
	if ctx.callee != nil {
		if sv, ok := ctx.callee.lets[name]; ok {
			return sv
		}
		if sv, ok := ctx.callee.params[name]; ok {
			return sv
		}
	} else {
		if sv, ok := ex.lets[name]; ok {
			return sv
		}
		switch ctx.mode {
		case "entry", "exit", "lemma":
			if sv, ok := ex.params[name]; ok {
				return sv
			}
			if ctx.mode == "exit" {
				if sv, ok := ex.lookupLocal(st, name); ok {
					return sv
				}
			}
		case "loop":
			if ctx.inOld {
				if sv, ok := ex.params[name]; ok {
					return sv
				}
			}
			if sv, ok := ex.lookupLocal(st, name); ok {
				return sv
			}
			if sv, ok := ex.params[name]; ok {
				return sv
			}
		}
		if sv, ok := st.ghosts[name]; ok {
			return sv
		}
		if srt, ok := obsSorts[name]; ok {
			sv := Scalar(ex.fresh("unobserved_"+name, srt))
			st.ghosts[name] = sv
			return sv
		}
		// ghost output of a callee that was not called on this path: arbitrary
		for cn, cfc := range ex.p.Contracts.Funcs {
			for _, g := range cfc.Ghosts {
				gn, gs := ghostNameSort(g.Name)
				if shortName(cn)+"_"+gn == name && gs != "" {
					sv := Scalar(ex.fresh("ghost_uncalled_"+name, sortByName(gs)))
					st.ghosts[name] = sv
					return sv
				}
			}
		}
	}
	// package-level variables and constants of the package under test
	if sv, ok := ex.p.lookupPkgName(ex, st, name); ok {
		return sv
	}
	ex.specFail("unknown identifier %q", name)
	return SV{}
}

func (ex *Exec) oldStateFor(st *State, ctx *specCtx) *State {
	if ctx.oldState != nil {
		return ctx.oldState
	}
	return ex.entry
}

func (ex *Exec) spec(st *State, e ast.Expr, ctx *specCtx) SV {
	switch v := e.(type) {
	case *ast.ParenExpr:
		return ex.spec(st, v.X, ctx)
	case *ast.BasicLit:
		switch v.Kind {
		case token.INT:
			n, ok := newBig(v.Value)
			if !ok {
				ex.specFail("bad integer %s", v.Value)
			}
			return Scalar(BigLit(n))
		case token.STRING:
			s, err := strconv.Unquote(v.Value)
			if err != nil {
				ex.specFail("bad string %s", v.Value)
			}
			return Scalar(ex.lit(s))
		}
	case *ast.Ident:
		return ex.lookupIdent(st, v.Name, ctx)
	case *ast.SelectorExpr:
		if id, ok := v.X.(*ast.Ident); ok {
			if sv, ok := ex.p.lookupQualified(ex, st, id.Name, v.Sel.Name); ok {
				return sv
			}
		}
		ex.specFail("unknown selector %s", exprString(e))
	case *ast.UnaryExpr:
		switch v.Op {
		case token.NOT:
			return Scalar(Not(ex.specBool(st, v.X, ctx)))
		case token.SUB:
			return Scalar(App(SInt, "-", ex.specTerm(st, v.X, ctx)))
		}
	case *ast.BinaryExpr:
		return ex.specBinary(st, v, ctx)
	case *ast.IndexExpr:
		x := ex.spec(st, v.X, ctx)
		i := ex.specTerm(st, v.Index, ctx)
		switch {
		case x.K == KSlice && x.Elem == "string":
			return Scalar(Select(Select(st.heap["SMem"], x.Ref), Add(x.Off, i)))
		case x.K == KScalar && x.T.Sort == SSeq:
			return Scalar(App(SStr, "f_sat", x.T, i))
		case x.K == KArray:
			return Scalar(Select(x.T, i))
		}
		ex.specFail("cannot index %s", exprString(v.X))
	case *ast.CallExpr:
		return ex.specCall(st, v, ctx)
	}
	ex.specFail("unsupported expression %s", exprString(e))
	return SV{}
}

func (ex *Exec) specBinary(st *State, v *ast.BinaryExpr, ctx *specCtx) SV {
	switch v.Op {
	case token.LAND:
		return Scalar(And(ex.specBool(st, v.X, ctx), ex.specBool(st, v.Y, ctx)))
	case token.LOR:
		return Scalar(Or(ex.specBool(st, v.X, ctx), ex.specBool(st, v.Y, ctx)))
	case token.EQL, token.NEQ:
		var a, b Term
		if id, ok := v.Y.(*ast.Ident); ok && id.Name == "nil" {
			a = ex.refOrErr(st, ex.spec(st, v.X, ctx), v.X)
			b = nilFor(a)
		} else if id, ok := v.X.(*ast.Ident); ok && id.Name == "nil" {
			b = ex.refOrErr(st, ex.spec(st, v.Y, ctx), v.Y)
			a = nilFor(b)
		} else {
			x, y := ex.spec(st, v.X, ctx), ex.spec(st, v.Y, ctx)
			if x.K == KSlice && y.K == KSlice {
				// slice identity
				eq := And(Eq(x.Ref, y.Ref), Eq(x.Off, y.Off), Eq(x.Len, y.Len))
				if v.Op == token.NEQ {
					return Scalar(Not(eq))
				}
				return Scalar(eq)
			}
			if x.K != KScalar || y.K != KScalar {
				// allow seq(x) style coercions
				if x.K == KScalar {
					b = ex.coerce(st, y, x.T.Sort, v.Y)
					a = x.T
				} else if y.K == KScalar {
					a = ex.coerce(st, x, y.T.Sort, v.X)
					b = y.T
				} else {
					ex.specFail("cannot compare %s", exprString(v))
				}
			} else {
				a, b = x.T, y.T
			}
			if a.Sort != b.Sort {
				ex.specFail("comparison of different sorts in %s: %s vs %s", exprString(v), a.Sort, b.Sort)
			}
		}
		if v.Op == token.NEQ {
			return Scalar(Not(Eq(a, b)))
		}
		return Scalar(Eq(a, b))
	}
	a, b := ex.specTerm(st, v.X, ctx), ex.specTerm(st, v.Y, ctx)
	if a.Sort != SInt || b.Sort != SInt {
		ex.specFail("integer operands expected in %s", exprString(v))
	}
	switch v.Op {
	case token.ADD:
		return Scalar(Add(a, b))
	case token.SUB:
		return Scalar(Sub(a, b))
	case token.MUL:
		return Scalar(Mul(a, b))
	case token.QUO:
		return Scalar(App(SInt, "div", a, b))
	case token.REM:
		return Scalar(App(SInt, "mod", a, b))
	case token.LSS:
		return Scalar(Lt(a, b))
	case token.LEQ:
		return Scalar(Le(a, b))
	case token.GTR:
		return Scalar(Gt(a, b))
	case token.GEQ:
		return Scalar(Ge(a, b))
	}
	ex.specFail("unsupported operator %s", v.Op)
	return SV{}
}

func (ex *Exec) refOrErr(st *State, sv SV, e ast.Expr) Term {
	switch {
	case sv.K == KScalar:
		return sv.T
	case sv.K == KSlice:
		return sv.Ref
	}
	ex.specFail("cannot compare %s with nil", exprString(e))
	return Term{}
}

func nilFor(t Term) Term {
	switch t.Sort {
	case SErr:
		return T(SErr, "nilErr")
	case SAny:
		return T(SAny, "nilAny")
	}
	return IntLit(0)
}

func (ex *Exec) specCall(st *State, v *ast.CallExpr, ctx *specCtx) SV {
	fn, ok := v.Fun.(*ast.Ident)
	if !ok {
		ex.specFail("unsupported call %s", exprString(v))
	}
	name := fn.Name
	arg := func(i int) ast.Expr {
		if i >= len(v.Args) {
			ex.specFail("%s: missing argument %d", name, i+1)
		}
		return v.Args[i]
	}
	nargs := func(n int) {
		if len(v.Args) != n {
			ex.specFail("%s expects %d arguments", name, n)
		}
	}
	switch name {
	case "implies":
		nargs(2)
		return Scalar(Implies(ex.specBool(st, arg(0), ctx), ex.specBool(st, arg(1), ctx)))
	case "iff":
		nargs(2)
		return Scalar(Eq(ex.specBool(st, arg(0), ctx), ex.specBool(st, arg(1), ctx)))
	case "ite":
		nargs(3)
		c := ex.specBool(st, arg(0), ctx)
		a, b := ex.specTerm(st, arg(1), ctx), ex.specTerm(st, arg(2), ctx)
		return Scalar(Ite(c, a, b))
	case "in":
		x := ex.specTerm(st, arg(0), ctx)
		var alts []Term
		for _, a := range v.Args[1:] {
			alts = append(alts, Eq(x, ex.specTerm(st, a, ctx)))
		}
		return Scalar(Or(alts...))
	case "old":
		nargs(1)
		os := ex.oldStateFor(st, ctx)
		n := *ctx
		n.inOld = true
		return ex.spec(os, arg(0), &n)
	case "athead":
		nargs(1)
		if ctx.headState == nil {
			ex.specFail("athead used outside a loop back edge")
		}
		return ex.spec(ctx.headState, arg(0), ctx)
	case "mem":
		nargs(1)
		x := ex.spec(st, arg(0), ctx)
		if x.K != KSlice || x.Elem != "byte" {
			ex.specFail("mem of %s", exprString(arg(0)))
		}
		return Scalar(Select(st.heap["BMem"], x.Ref))
	case "bsubSplit":
		// instance of: a,b >= 0 ==> bsub(x,o,a+b) == bcat(bsub(x,o,a), bsub(x,o+a,b))
		nargs(4)
		x, o, a, b := ex.specTerm(st, arg(0), ctx), ex.specTerm(st, arg(1), ctx), ex.specTerm(st, arg(2), ctx), ex.specTerm(st, arg(3), ctx)
		return Scalar(Implies(And(Ge(a, IntLit(0)), Ge(b, IntLit(0))), Eq(App(SBytes, "f_bsub", x, o, Add(a, b)),
			App(SBytes, "f_bcat", App(SBytes, "f_bsub", x, o, a), App(SBytes, "f_bsub", x, Add(o, a), b)))))
	case "bsubNest":
		// instance of: 0<=o2, 0<=l2, o2+l2<=l ==> bsub(bsub(x,o,l),o2,l2) == bsub(x,o+o2,l2)
		nargs(5)
		x, o, l, o2, l2 := ex.specTerm(st, arg(0), ctx), ex.specTerm(st, arg(1), ctx), ex.specTerm(st, arg(2), ctx), ex.specTerm(st, arg(3), ctx), ex.specTerm(st, arg(4), ctx)
		return Scalar(Implies(And(Ge(o2, IntLit(0)), Ge(l2, IntLit(0)), Le(Add(o2, l2), l)),
			Eq(App(SBytes, "f_bsub", App(SBytes, "f_bsub", x, o, l), o2, l2), App(SBytes, "f_bsub", x, Add(o, o2), l2))))
	case "bsubFull":
		// instance of: n == blen(x) ==> bsub(x,0,n) == x
		nargs(2)
		x, n := ex.specTerm(st, arg(0), ctx), ex.specTerm(st, arg(1), ctx)
		return Scalar(Implies(Eq(n, App(SInt, "f_blen", x)), Eq(App(SBytes, "f_bsub", x, IntLit(0), n), x)))
	case "rsegSplit":
		// instance of: a,b >= 0 ==> rseg(r,p,a+b) == bcat(rseg(r,p,a), rseg(r,p+a,b))
		nargs(4)
		r, pp, a, b := ex.specTerm(st, arg(0), ctx), ex.specTerm(st, arg(1), ctx), ex.specTerm(st, arg(2), ctx), ex.specTerm(st, arg(3), ctx)
		return Scalar(Implies(And(Ge(a, IntLit(0)), Ge(b, IntLit(0))), Eq(App(SBytes, "f_rseg", r, pp, Add(a, b)),
			App(SBytes, "f_bcat", App(SBytes, "f_rseg", r, pp, a), App(SBytes, "f_rseg", r, Add(pp, a), b)))))
	case "max0":
		nargs(1)
		x := ex.specTerm(st, arg(0), ctx)
		return Scalar(Ite(Ge(x, IntLit(0)), x, IntLit(0)))
	case "forall", "exists":
		nargs(4)
		id, ok := arg(0).(*ast.Ident)
		if !ok {
			ex.specFail("%s: first argument must be a variable", name)
		}
		lo, hi := ex.specTerm(st, arg(1), ctx), ex.specTerm(st, arg(2), ctx)
		// small concrete ranges are expanded
		if l, ok1 := modelInt(lo.S); ok1 {
			if h, ok2 := modelInt(hi.S); ok2 && h.Int64()-l.Int64() <= 64 {
				var parts []Term
				for k := l.Int64(); k < h.Int64(); k++ {
					parts = append(parts, ex.specBool(st, arg(3), ctx.withBound(id.Name, IntLit(k))))
				}
				if name == "forall" {
					return Scalar(And(parts...))
				}
				return Scalar(Or(parts...))
			}
		}
		bv := T(SInt, "q_"+id.Name)
		body := ex.specBool(st, arg(3), ctx.withBound(id.Name, bv))
		rng := And(Le(lo, bv), Lt(bv, hi))
		if name == "forall" {
			return Scalar(Forall([]Term{bv}, Implies(rng, body)))
		}
		return Scalar(Exists([]Term{bv}, And(rng, body)))
	case "forallS", "forallI", "forallSeq", "existsI":
		nargs(2)
		id, ok := arg(0).(*ast.Ident)
		if !ok {
			ex.specFail("%s: first argument must be a variable", name)
		}
		srt := map[string]string{"forallS": SStr, "forallI": SInt, "forallSeq": SSeq, "existsI": SInt}[name]
		bv := T(srt, "q_"+id.Name)
		body := ex.specBool(st, arg(1), ctx.withBound(id.Name, bv))
		if name == "existsI" {
			return Scalar(Exists([]Term{bv}, body))
		}
		return Scalar(Forall([]Term{bv}, body))
	case "len":
		nargs(1)
		x := ex.spec(st, arg(0), ctx)
		switch {
		case x.K == KSlice:
			return Scalar(x.Len)
		case x.K == KScalar && x.T.Sort == SStr:
			return Scalar(App(SInt, "f_strlen", x.T))
		case x.K == KScalar && x.T.Sort == SSeq:
			return Scalar(App(SInt, "f_slen", x.T))
		case x.K == KScalar && x.T.Sort == SBytes:
			return Scalar(App(SInt, "f_blen", x.T))
		}
		ex.specFail("len of %s", exprString(arg(0)))
	case "cap", "ref", "off":
		nargs(1)
		x := ex.spec(st, arg(0), ctx)
		if x.K == KSlice {
			return Scalar(map[string]Term{"cap": x.Cap, "ref": x.Ref, "off": x.Off}[name])
		}
		if name == "ref" && x.K == KScalar && x.T.Sort == SInt {
			return x
		}
		ex.specFail("%s of non-slice %s", name, exprString(arg(0)))
	case "val":
		nargs(1)
		return Scalar(Select(st.heap["BigVal"], ex.specTerm(st, arg(0), ctx)))
	case "pos":
		nargs(1)
		return Scalar(Select(st.heap["RPos"], ex.specTerm(st, arg(0), ctx)))
	case "hacc":
		nargs(1)
		return Scalar(Select(st.heap["HAcc"], ex.specTerm(st, arg(0), ctx)))
	case "bytes":
		nargs(1)
		x := ex.spec(st, arg(0), ctx)
		return Scalar(ex.coerce(st, x, SBytes, arg(0)))
	case "seq":
		nargs(1)
		x := ex.spec(st, arg(0), ctx)
		return Scalar(ex.coerce(st, x, SSeq, arg(0)))
	case "dom":
		nargs(2)
		return Scalar(Select(Select(st.heap["MDom"], ex.specTerm(st, arg(0), ctx)), ex.specTerm(st, arg(1), ctx)))
	case "mval":
		nargs(2)
		return Scalar(Select(Select(st.heap["MVal"], ex.specTerm(st, arg(0), ctx)), ex.specTerm(st, arg(1), ctx)))
	case "done":
		nargs(1)
		id, ok := arg(0).(*ast.Ident)
		if !ok {
			ex.specFail("done expects a sync.Once variable name")
		}
		g := ex.p.globalByName(id.Name)
		if g == nil {
			ex.specFail("unknown sync.Once variable %s", id.Name)
		}
		return Scalar(Select(st.heap["Done"], IntLit(int64(ex.p.onceID(g)))))
	case "bodyOf":
		nargs(1)
		ex.declareFun("f_extfield_Int", []string{SInt, SInt}, SInt)
		return Scalar(App(SInt, "f_extfield_Int", ex.specTerm(st, arg(0), ctx), IntLit(6)))
	case "fresh":
		nargs(1)
		x := ex.spec(st, arg(0), ctx)
		r := ex.refOrErr(st, x, arg(0))
		os := ex.oldStateFor(st, ctx)
		return Scalar(And(Ge(r, os.next), Lt(r, st.next)))
	case "unchanged":
		// unchanged(x): the bytes of slice x are as in the old state
		nargs(1)
		x := ex.spec(st, arg(0), ctx)
		os := ex.oldStateFor(st, ctx)
		if x.K == KSlice && x.Elem == "byte" {
			return Scalar(Eq(ex.sliceBytes(st, x), ex.sliceBytes(os, x)))
		}
		if x.K == KSlice && x.Elem == "string" {
			return Scalar(Eq(Select(st.heap["SMem"], x.Ref), Select(os.heap["SMem"], x.Ref)))
		}
		ex.specFail("unchanged of %s", exprString(arg(0)))
	}
	if m, ok := ex.p.Contracts.Macros[name]; ok {
		if len(m.Params) != len(v.Args) {
			ex.specFail("macro %s expects %d arguments", name, len(m.Params))
		}
		// evaluate arguments first (call by value), bind as scalars or SVs
		n := *ctx
		n.bound = map[string]Term{}
		for k, t := range ctx.bound {
			n.bound[k] = t
		}
		mctx := &n
		saved := map[string]SV{}
		for i, p := range m.Params {
			sv := ex.spec(st, v.Args[i], ctx)
			if sv.K == KScalar {
				mctx.bound[p] = sv.T
			} else {
				saved[p] = sv
			}
		}
		if len(saved) > 0 {
			// non-scalar arguments are passed through ghosts
			for p, sv := range saved {
				mctx.ghosts = append([]ghostVal{{p, sv}}, mctx.ghosts...)
			}
		}
		return ex.spec(st, m.Body, mctx)
	}
	if sf, ok := specFns[name]; ok {
		if len(sf.Args) != len(v.Args) {
			ex.specFail("%s expects %d arguments", name, len(sf.Args))
		}
		var args []Term
		for i, a := range v.Args {
			args = append(args, ex.coerce(st, ex.spec(st, a, ctx), sf.Args[i], a))
		}
		return Scalar(App(sf.Ret, sf.SMT, args...))
	}
	ex.specFail("unknown function %s", name)
	return SV{}
}

// addAssignExpr interprets one element of an assigns clause.
func (ex *Exec) addAssignExpr(st *State, as *assignSet, e interface{}, ctx *specCtx) {
	expr := e.(ast.Expr)
	switch v := expr.(type) {
	case *ast.Ident:
		if v.Name == "mappings" {
			for _, g := range ex.p.mutableGlobals() {
				as.globals[g.Name()] = true
			}
			as.all["Done"] = true
			return
		}
		as.globals[v.Name] = true
		return
	case *ast.IndexExpr:
		if id, ok := v.X.(*ast.Ident); ok {
			if _, isHeap := heapSort[id.Name]; isHeap {
				if star, ok := v.Index.(*ast.Ident); ok && star.Name == "all" {
					as.all[id.Name] = true
					return
				}
				if id.Name == "Done" {
					if on, ok := v.Index.(*ast.Ident); ok {
						if g := ex.p.globalByName(on.Name); g != nil {
							as.refs["Done"] = append(as.refs["Done"], IntLit(int64(ex.p.onceID(g))))
							return
						}
					}
				}
				sv := ex.spec(st, v.Index, ctx)
				as.refs[id.Name] = append(as.refs[id.Name], ex.refOrErr(st, sv, v.Index))
				return
			}
		}
	}
	ex.specFail("unsupported assigns target %s", exprString(expr))
}

// ---------------------------------------------------------------------------
// ground unfolding of recursive spec functions

// unfoldGround emits ground instances of the defining equations of acc /
// shr11 for a concrete count obtained from a case split.
func (ex *Exec) unfoldGround(st *State, u ast.Expr, ctx *specCtx, splitSrc string, splitVal int64) {
	call, ok := u.(*ast.CallExpr)
	if !ok {
		ex.specFail("unfold expects a spec function application")
	}
	name := call.Fun.(*ast.Ident).Name
	konst := func(e ast.Expr) int64 {
		n, ok := ex.constEval(e, splitSrc, splitVal)
		if !ok {
			ex.specFail("unfold: %s is not concrete under the split", exprString(e))
		}
		return n
	}
	switch name {
	case "acc":
		// acc(t, L, n, k): k instances
		t := ex.coerce(st, ex.spec(st, call.Args[0], ctx), SSeq, call.Args[0])
		l := ex.specTerm(st, call.Args[1], ctx)
		nT := ex.specTerm(st, call.Args[2], ctx)
		n := konst(call.Args[2])
		k := konst(call.Args[3])
		st.assume(Eq(App(SInt, "f_acc", t, l, nT, IntLit(0)), IntLit(0)))
		for j := int64(1); j <= k; j++ {
			w := App(SInt, "f_widx", l, App(SStr, "f_sat", t, IntLit(j-1)))
			st.assume(Eq(App(SInt, "f_acc", t, l, nT, IntLit(j)),
				Add(App(SInt, "f_acc", t, l, nT, IntLit(j-1)), Mul(w, Pow2Lit(int(11*(n-j)))))))
		}
	case "horner":
		// horner(t, L, k): the same value accumulated Horner-style; k instances
		t := ex.coerce(st, ex.spec(st, call.Args[0], ctx), SSeq, call.Args[0])
		l := ex.specTerm(st, call.Args[1], ctx)
		k := konst(call.Args[2])
		st.assume(Eq(App(SInt, "f_horner", t, l, IntLit(0)), IntLit(0)))
		for j := int64(1); j <= k; j++ {
			w := App(SInt, "f_widx", l, App(SStr, "f_sat", t, IntLit(j-1)))
			st.assume(Eq(App(SInt, "f_horner", t, l, IntLit(j)),
				Add(Mul(App(SInt, "f_horner", t, l, IntLit(j-1)), IntLit(2048)), w)))
		}
	case "shr11":
		v := ex.specTerm(st, call.Args[0], ctx)
		vn := ex.define(st, "V", v)
		if vn.S != v.S {
			// keep the original term visible to E-matching through the equality just assumed
			v = vn
		}
		p := konst(call.Args[1])
		st.assume(Eq(App(SInt, "f_shr11", v, IntLit(0)), v))
		for j := int64(1); j <= p; j++ {
			st.assume(Eq(App(SInt, "f_shr11", v, IntLit(j)), App(SInt, "div", App(SInt, "f_shr11", v, IntLit(j-1)), IntLit(2048))))
		}
	default:
		ex.specFail("unfold: unknown recursive function %s", name)
	}
}

// unfoldStep emits one instance of a defining equation at a symbolic index
// (for inductive steps): acc(t,L,n,k) with k the given expression.
func (ex *Exec) unfoldStep(st *State, u ast.Expr, ctx *specCtx) {
	call, ok := u.(*ast.CallExpr)
	if !ok {
		ex.specFail("unfold expects a spec function application")
	}
	name := call.Fun.(*ast.Ident).Name
	switch name {
	case "acc":
		t := ex.coerce(st, ex.spec(st, call.Args[0], ctx), SSeq, call.Args[0])
		l := ex.specTerm(st, call.Args[1], ctx)
		n := ex.specTerm(st, call.Args[2], ctx)
		k := ex.specTerm(st, call.Args[3], ctx)
		w := App(SInt, "f_widx", l, App(SStr, "f_sat", t, Sub(k, IntLit(1))))
		st.assume(Implies(Ge(k, IntLit(1)), Eq(App(SInt, "f_acc", t, l, n, k),
			Add(App(SInt, "f_acc", t, l, n, Sub(k, IntLit(1))), App(SInt, "f_bigshl", w, Mul(IntLit(11), Sub(n, k)))))))
		st.assume(Eq(App(SInt, "f_acc", t, l, n, IntLit(0)), IntLit(0)))
	case "horner":
		t := ex.coerce(st, ex.spec(st, call.Args[0], ctx), SSeq, call.Args[0])
		l := ex.specTerm(st, call.Args[1], ctx)
		k := ex.specTerm(st, call.Args[2], ctx)
		w := App(SInt, "f_widx", l, App(SStr, "f_sat", t, Sub(k, IntLit(1))))
		st.assume(Implies(Ge(k, IntLit(1)), Eq(App(SInt, "f_horner", t, l, k),
			Add(Mul(App(SInt, "f_horner", t, l, Sub(k, IntLit(1))), IntLit(2048)), w))))
		st.assume(Eq(App(SInt, "f_horner", t, l, IntLit(0)), IntLit(0)))
	case "shr11":
		v := ex.specTerm(st, call.Args[0], ctx)
		p := ex.specTerm(st, call.Args[1], ctx)
		st.assume(Implies(Ge(p, IntLit(1)), Eq(App(SInt, "f_shr11", v, p), App(SInt, "div", App(SInt, "f_shr11", v, Sub(p, IntLit(1))), IntLit(2048)))))
		st.assume(Eq(App(SInt, "f_shr11", v, IntLit(0)), v))
	default:
		ex.specFail("unfold: unknown recursive function %s", name)
	}
}

// constEval evaluates an integer expression in which the split expression
// (matched by source text) has the given value; lets are expanded by source.
func (ex *Exec) constEval(e ast.Expr, splitSrc string, splitVal int64) (int64, bool) {
	if strings.TrimSpace(exprString(e)) == strings.TrimSpace(splitSrc) {
		return splitVal, true
	}
	switch v := e.(type) {
	case *ast.ParenExpr:
		return ex.constEval(v.X, splitSrc, splitVal)
	case *ast.BasicLit:
		if v.Kind == token.INT {
			n, err := strconv.ParseInt(v.Value, 10, 64)
			return n, err == nil
		}
	case *ast.Ident:
		if src, ok := ex.letSrc[v.Name]; ok {
			le, err := parseExprSrc(src)
			if err == nil {
				return ex.constEval(le, splitSrc, splitVal)
			}
		}
	case *ast.BinaryExpr:
		a, ok1 := ex.constEval(v.X, splitSrc, splitVal)
		b, ok2 := ex.constEval(v.Y, splitSrc, splitVal)
		if !ok1 || !ok2 {
			return 0, false
		}
		switch v.Op {
		case token.ADD:
			return a + b, true
		case token.SUB:
			return a - b, true
		case token.MUL:
			return a * b, true
		case token.QUO:
			if b != 0 {
				return a / b, true
			}
		}
	}
	return 0, false
}

var _ = types.Typ

// iterTerm finds the iteration counter of a loop at its cut point (the start
// of the header block).
func (ex *Exec) iterTerm(st *State, li *loopInfo) (Term, bool) {
	var cond *ssa.If
	for _, in := range li.header.Instrs {
		if c, ok := in.(*ssa.If); ok {
			cond = c
		}
	}
	if cond == nil {
		return Term{}, false
	}
	bo, ok := cond.Cond.(*ssa.BinOp)
	if !ok {
		return Term{}, false
	}
	// the counter is read from a local cell in the header, possibly incremented first (range loops)
	var find func(v ssa.Value, depth int) (*ssa.Alloc, int64, bool)
	find = func(v ssa.Value, depth int) (*ssa.Alloc, int64, bool) {
		if depth > 3 {
			return nil, 0, false
		}
		switch x := v.(type) {
		case *ssa.UnOp:
			if a, ok := x.X.(*ssa.Alloc); ok && x.Op == token.MUL {
				return a, 0, true
			}
		case *ssa.BinOp:
			if c, ok := x.Y.(*ssa.Const); ok && x.Op == token.ADD && c.Value != nil {
				if a, off, ok := find(x.X, depth+1); ok {
					if k, ok2 := constant.Int64Val(c.Value); ok2 {
						return a, off + k, true
					}
				}
			}
		}
		return nil, 0, false
	}
	a, off, ok := find(bo.X, 0)
	if !ok {
		return Term{}, false
	}
	sv, ok := st.cells[a]
	if !ok || sv.K != KScalar {
		return Term{}, false
	}
	if off == 0 {
		return sv.T, true
	}
	return Add(sv.T, IntLit(off)), true
}
