package main

// Parsing of the //@ contract files (Gobra-style clauses kept in comment-only
// files behind the `verif` build tag in the repository under test).

import (
	"fmt"
	"go/ast"
	"go/parser"
	"os"
	"regexp"
	"sort"
	"strconv"
	"strings"
)

type Clause struct {
	Kind  string   // requires ensures derives invariant decreases assert
	Label string   // stable name used in obligation names
	Tags  []string // property ids
	Src   string
	Expr  ast.Expr
	From  []string // derives: labels of the clauses it follows from
	Line  int
	File  string
	Hints []string // lemma hints: names of axioms groups to include ("lists")
}

type LetDef struct {
	Name string
	Expr ast.Expr
	Src  string
}

type SplitDef struct {
	Anchor string // "entry" | "loop N exit" | "after call NAME#k"
	Expr   ast.Expr
	Src    string
	Values []int64
	Unfold []ast.Expr // recursive spec terms to ground-unfold in each branch
	Line   int
}

type AssertDef struct {
	Anchor string
	Clause *Clause
}

type LoopContract struct {
	Ordinal    int
	Invariants []*Clause
	Decreases  *Clause
	Assigns    []ast.Expr
	AssignsSrc []string
	Unfold     []ast.Expr
	Uses       []ast.Expr // lemma instances assumed at the back edge and at loop exits
}

type FuncContract struct {
	Name     string
	Native   bool
	Requires []*Clause
	Lets     []LetDef
	Splits   []SplitDef
	Asserts  []AssertDef
	Assigns  []ast.Expr
	AssignsS []string
	Ghosts   []LetDef
	Ensures  []*Clause
	Derives  []*Clause
	Loops    map[int]*LoopContract
	Lemma    bool // pure lemma: no code, ensures proved from requires + prelude
	Params   []string
	PSorts   []string
	File     string
	Line     int
	NoInline bool
	Trusted  bool
	Watches  []WatchDef
	Uses     []ast.Expr // lemma instances assumed at every return (axiom schemas instantiated by hand)
	// proof alternatives: clauses that replace the like-named base clauses when the
	// base proof does not go through (alt NAME: <clause>); see variants.go
	Alts     map[string]*FuncContract
	AltOrder []string
	Variant  string
}

// WatchDef: a term whose model value is reported with counterexamples
// (watch NAME = expr; watchseq NAME COUNT = expr over j).
type WatchDef struct {
	Name  string
	Count int // 0: single
	Expr  ast.Expr
}

type Macro struct {
	Name   string
	Params []string
	Body   ast.Expr
	Src    string
}

type GlobalDecl struct {
	Name string
	Kind string // immutable | guarded_by
	Once string
	Lang string
	Line int
	File string
}

type Contracts struct {
	Funcs      map[string]*FuncContract
	Order      []string
	Macros     map[string]*Macro
	Globals    map[string]*GlobalDecl
	Invariants []*Clause
	Files      []string
	RawLines   int
}

var reTags = regexp.MustCompile(`^\[([A-Za-z0-9, ]+)\]\s*`)
var reLabel = regexp.MustCompile(`^([A-Za-z_][A-Za-z0-9_\-./]*):\s+`)

func parseExprSrc(src string) (ast.Expr, error) {
	e, err := parser.ParseExpr(src)
	if err != nil {
		return nil, fmt.Errorf("cannot parse %q: %v", src, err)
	}
	return e, nil
}

// logicalLines extracts //@ lines, joining continuation lines ("//@ | ...").
func logicalLines(file string) ([]string, []int, error) {
	data, err := os.ReadFile(file)
	if err != nil {
		return nil, nil, err
	}
	var out []string
	var lines []int
	for i, ln := range strings.Split(string(data), "\n") {
		s := strings.TrimSpace(ln)
		var body string
		switch {
		case strings.HasPrefix(s, "//@"):
			body = s[3:]
		case strings.HasPrefix(s, "// @"):
			body = s[4:]
		default:
			continue
		}
		// strip trailing comment introduced by " //"
		if k := strings.Index(body, " //"); k >= 0 {
			body = body[:k]
		}
		body = strings.TrimSpace(body)
		if body == "" {
			continue
		}
		if strings.HasPrefix(body, "|") {
			if len(out) == 0 {
				return nil, nil, fmt.Errorf("%s:%d: continuation without clause", file, i+1)
			}
			out[len(out)-1] += " " + strings.TrimSpace(body[1:])
			continue
		}
		out = append(out, body)
		lines = append(lines, i+1)
	}
	return out, lines, nil
}

func (c *Contracts) parseFile(file string) error {
	ll, lns, err := logicalLines(file)
	if err != nil {
		return err
	}
	c.Files = append(c.Files, file)
	c.RawLines += len(ll)
	var cur, altRestore *FuncContract
	for i, l := range ll {
		line := lns[i]
		if altRestore != nil {
			cur, altRestore = altRestore, nil
		}
		fail := func(f string, a ...interface{}) error {
			return fmt.Errorf("%s:%d: %s", file, line, fmt.Sprintf(f, a...))
		}
		word, rest := splitWord(l)
		switch word {
		case "define":
			// define NAME(p, q) = expr
			k := strings.Index(rest, "=")
			// find the '=' that follows the closing paren of the head
			rp := strings.Index(rest, ")")
			if rp < 0 || k < 0 {
				return fail("bad define")
			}
			k = rp + strings.Index(rest[rp:], "=")
			head := strings.TrimSpace(rest[:k])
			body := strings.TrimSpace(rest[k+1:])
			lp := strings.Index(head, "(")
			name := strings.TrimSpace(head[:lp])
			var params []string
			for _, p := range strings.Split(head[lp+1:len(head)-1], ",") {
				p = strings.TrimSpace(p)
				if p != "" {
					params = append(params, p)
				}
			}
			e, err := parseExprSrc(body)
			if err != nil {
				return fail("%v", err)
			}
			c.Macros[name] = &Macro{name, params, e, body}
		case "global":
			f := strings.Fields(rest)
			if len(f) < 2 {
				return fail("bad global")
			}
			g := &GlobalDecl{Name: f[0], Kind: f[1], Line: line, File: file}
			if g.Kind == "guarded_by" {
				if len(f) < 3 {
					return fail("guarded_by needs a sync.Once variable")
				}
				g.Once = f[2]
				if len(f) >= 5 && f[3] == "lang" {
					g.Lang = f[4]
				}
			}
			c.Globals[g.Name] = g
		case "invariant":
			cl, err := parseClause("invariant", rest, file, line)
			if err != nil {
				return fail("%v", err)
			}
			if cl.Label == "" {
				cl.Label = fmt.Sprintf("inv%d", len(c.Invariants)+1)
			}
			c.Invariants = append(c.Invariants, cl)
			cur = nil
		case "func", "lemma":
			name := strings.TrimSpace(rest)
			cur = &FuncContract{Name: name, Loops: map[int]*LoopContract{}, File: file, Line: line}
			if word == "lemma" {
				// lemma NAME(p Sort, q Sort)
				cur.Lemma = true
				lp := strings.Index(name, "(")
				if lp < 0 {
					return fail("lemma needs parameters")
				}
				ps := name[lp+1 : strings.LastIndex(name, ")")]
				cur.Name = strings.TrimSpace(name[:lp])
				for _, p := range strings.Split(ps, ",") {
					f := strings.Fields(p)
					if len(f) == 2 {
						cur.Params = append(cur.Params, f[0])
						cur.PSorts = append(cur.PSorts, f[1])
					}
				}
			}
			if _, dup := c.Funcs[cur.Name]; dup {
				return fail("duplicate contract for %s", cur.Name)
			}
			c.Funcs[cur.Name] = cur
			c.Order = append(c.Order, cur.Name)
		default:
			if cur == nil {
				return fail("clause %q outside func block", word)
			}
			target := cur
			altRestore = nil
			if word == "alt" {
				// alt NAME: <clause>  -- the clause belongs to proof alternative NAME
				k := strings.Index(rest, ":")
				if k < 0 {
					return fail("alt needs 'NAME:'")
				}
				an := strings.TrimSpace(rest[:k])
				if cur.Alts == nil {
					cur.Alts = map[string]*FuncContract{}
				}
				if cur.Alts[an] == nil {
					cur.Alts[an] = &FuncContract{Name: cur.Name, Loops: map[int]*LoopContract{}, File: file, Line: line, Variant: an}
					cur.AltOrder = append(cur.AltOrder, an)
				}
				word, rest = splitWord(rest[k+1:])
				cur = cur.Alts[an]
			}
			altRestore = target
			switch word {
			case "strings":
				cur.Native = strings.TrimSpace(rest) == "native"
			case "noinline":
				cur.NoInline = true
			case "requires", "ensures":
				cl, err := parseClause(word, rest, file, line)
				if err != nil {
					return fail("%v", err)
				}
				if word == "requires" {
					if cl.Label == "" {
						cl.Label = fmt.Sprintf("requires#%d", len(cur.Requires)+1)
					}
					cur.Requires = append(cur.Requires, cl)
				} else {
					if cl.Label == "" {
						cl.Label = fmt.Sprintf("ensures#%d", len(cur.Ensures)+1)
					}
					cur.Ensures = append(cur.Ensures, cl)
				}
			case "derives":
				// derives [tags] label: expr from A, B
				k := strings.LastIndex(rest, " from ")
				if k < 0 {
					return fail("derives needs 'from'")
				}
				cl, err := parseClause("derives", rest[:k], file, line)
				if err != nil {
					return fail("%v", err)
				}
				for _, f := range strings.Split(rest[k+6:], ",") {
					f = strings.TrimSpace(f)
					if strings.HasPrefix(f, "+") {
						cl.Hints = append(cl.Hints, f[1:])
					} else if f != "" {
						cl.From = append(cl.From, f)
					}
				}
				if cl.Label == "" {
					cl.Label = fmt.Sprintf("derives#%d", len(cur.Derives)+1)
				}
				cur.Derives = append(cur.Derives, cl)
			case "let", "ghost":
				k := strings.Index(rest, "=")
				if k < 0 {
					return fail("bad %s", word)
				}
				name := strings.TrimSpace(rest[:k])
				src := strings.TrimSpace(rest[k+1:])
				e, err := parseExprSrc(src)
				if err != nil {
					return fail("%v", err)
				}
				if word == "let" {
					cur.Lets = append(cur.Lets, LetDef{name, e, src})
				} else {
					cur.Ghosts = append(cur.Ghosts, LetDef{name, e, src})
				}
			case "use":
				e, err := parseExprSrc(rest)
				if err != nil {
					return fail("%v", err)
				}
				cur.Uses = append(cur.Uses, e)
			case "watch", "watchseq":
				k := strings.Index(rest, "=")
				if k < 0 {
					return fail("bad watch")
				}
				head := strings.Fields(rest[:k])
				e, err := parseExprSrc(strings.TrimSpace(rest[k+1:]))
				if err != nil {
					return fail("%v", err)
				}
				wd := WatchDef{Name: head[0], Expr: e}
				if word == "watchseq" {
					if len(head) != 2 {
						return fail("watchseq NAME COUNT = expr")
					}
					wd.Count, _ = strconv.Atoi(head[1])
				}
				cur.Watches = append(cur.Watches, wd)
			case "assigns":
				es, srcs, err := parseExprList(rest)
				if err != nil {
					return fail("%v", err)
				}
				cur.Assigns = append(cur.Assigns, es...)
				cur.AssignsS = append(cur.AssignsS, srcs...)
			case "split":
				// split EXPR in {a,b,c} at ANCHOR [unfold e1; e2]
				sd := SplitDef{Line: line}
				r := rest
				if k := strings.Index(r, " unfold "); k >= 0 {
					for _, u := range strings.Split(r[k+8:], ";") {
						e, err := parseExprSrc(strings.TrimSpace(u))
						if err != nil {
							return fail("%v", err)
						}
						sd.Unfold = append(sd.Unfold, e)
					}
					r = r[:k]
				}
				k := strings.Index(r, " at ")
				if k < 0 {
					return fail("split needs 'at'")
				}
				sd.Anchor = strings.TrimSpace(r[k+4:])
				r = r[:k]
				k = strings.Index(r, " in ")
				if k < 0 {
					return fail("split needs 'in'")
				}
				sd.Src = strings.TrimSpace(r[:k])
				e, err := parseExprSrc(sd.Src)
				if err != nil {
					return fail("%v", err)
				}
				sd.Expr = e
				set := strings.Trim(strings.TrimSpace(r[k+4:]), "{}")
				for _, v := range strings.Split(set, ",") {
					n, err := strconv.ParseInt(strings.TrimSpace(v), 10, 64)
					if err != nil {
						return fail("bad split value %q", v)
					}
					sd.Values = append(sd.Values, n)
				}
				cur.Splits = append(cur.Splits, sd)
			case "assert":
				// assert at ANCHOR: expr
				if !strings.HasPrefix(rest, "at ") {
					return fail("assert needs 'at ANCHOR:'")
				}
				k := strings.Index(rest, ":")
				if k < 0 {
					return fail("assert needs ':'")
				}
				anchor := strings.TrimSpace(rest[3:k])
				cl, err := parseClause("assert", strings.TrimSpace(rest[k+1:]), file, line)
				if err != nil {
					return fail("%v", err)
				}
				if cl.Label == "" {
					cl.Label = fmt.Sprintf("assert#%d", len(cur.Asserts)+1)
				}
				cur.Asserts = append(cur.Asserts, AssertDef{anchor, cl})
			case "loop":
				w2, r2 := splitWord(rest)
				n, err := strconv.Atoi(w2)
				if err != nil {
					return fail("loop needs an ordinal")
				}
				lc := cur.Loops[n]
				if lc == nil {
					lc = &LoopContract{Ordinal: n}
					cur.Loops[n] = lc
				}
				w3, r3 := splitWord(r2)
				switch w3 {
				case "invariant":
					cl, err := parseClause("invariant", r3, file, line)
					if err != nil {
						return fail("%v", err)
					}
					if cl.Label == "" {
						cl.Label = fmt.Sprintf("inv#%d", len(lc.Invariants)+1)
					}
					lc.Invariants = append(lc.Invariants, cl)
				case "decreases":
					cl, err := parseClause("decreases", r3, file, line)
					if err != nil {
						return fail("%v", err)
					}
					cl.Label = "variant"
					lc.Decreases = cl
				case "assigns":
					es, srcs, err := parseExprList(r3)
					if err != nil {
						return fail("%v", err)
					}
					lc.Assigns = append(lc.Assigns, es...)
					lc.AssignsSrc = append(lc.AssignsSrc, srcs...)
				case "use":
					e, err := parseExprSrc(r3)
					if err != nil {
						return fail("%v", err)
					}
					lc.Uses = append(lc.Uses, e)
				case "unfold":
					for _, u := range strings.Split(r3, ";") {
						e, err := parseExprSrc(strings.TrimSpace(u))
						if err != nil {
							return fail("%v", err)
						}
						lc.Unfold = append(lc.Unfold, e)
					}
				default:
					return fail("unknown loop clause %q", w3)
				}
			default:
				return fail("unknown clause %q", word)
			}
		}
	}
	return nil
}

func splitWord(s string) (string, string) {
	s = strings.TrimSpace(s)
	k := strings.IndexAny(s, " \t")
	if k < 0 {
		return s, ""
	}
	return s[:k], strings.TrimSpace(s[k+1:])
}

func parseClause(kind, rest, file string, line int) (*Clause, error) {
	cl := &Clause{Kind: kind, File: file, Line: line}
	rest = strings.TrimSpace(rest)
	if m := reTags.FindStringSubmatch(rest); m != nil {
		for _, t := range strings.Split(m[1], ",") {
			cl.Tags = append(cl.Tags, strings.TrimSpace(t))
		}
		rest = rest[len(m[0]):]
	}
	if m := reLabel.FindStringSubmatch(rest); m != nil {
		cl.Label = m[1]
		rest = rest[len(m[0]):]
	}
	cl.Src = rest
	e, err := parseExprSrc(rest)
	if err != nil {
		return nil, err
	}
	cl.Expr = e
	return cl, nil
}

func parseExprList(s string) ([]ast.Expr, []string, error) {
	s = strings.TrimSpace(s)
	if s == "" || s == "nothing" {
		return nil, nil, nil
	}
	// parse as a call argument list to split at top-level commas
	e, err := parseExprSrc("f(" + s + ")")
	if err != nil {
		return nil, nil, err
	}
	call := e.(*ast.CallExpr)
	var srcs []string
	for _, a := range call.Args {
		srcs = append(srcs, exprString(a))
	}
	return call.Args, srcs, nil
}

func LoadContracts(files []string) (*Contracts, error) {
	c := &Contracts{Funcs: map[string]*FuncContract{}, Macros: map[string]*Macro{}, Globals: map[string]*GlobalDecl{}}
	sort.Strings(files)
	for _, f := range files {
		if err := c.parseFile(f); err != nil {
			return nil, err
		}
	}
	return c, nil
}
