package main

// Thorough tier: bounded audits of the assumed dependency contracts and the
// must-fail self-test corpus.

import (
	"bufio"
	"bytes"
	"encoding/json"
	"fmt"
	"os"
	"os/exec"
	"path/filepath"
	"sort"
	"strings"
)

func (p *Program) runAudits(opts checkOpts) ([]map[string]interface{}, error) {
	out := filepath.Join(verifDir, "work", opts.prop+os.Getenv("VERIF_WORK_SUFFIX"), "audit.jsonl")
	_ = os.Remove(out)
	cmd := exec.Command("go", "test", "-count=1", "-timeout", "20m", "./audit")
	cmd.Dir = verifDir
	cmd.Env = append(os.Environ(), "GOFLAGS=-mod=vendor", "GOPROXY=off", "GOSUMDB=off", "GOTOOLCHAIN=local",
		"VERIF_AUDIT_OUT="+out, "VERIF_REF_DIR="+filepath.Join(verifDir, "ref", "wordlists"), "VERIF_TIER="+opts.tier, fmt.Sprintf("VERIF_SEED=%d", opts.seed))
	var buf bytes.Buffer
	cmd.Stdout, cmd.Stderr = &buf, &buf
	err := cmd.Run()
	var res []map[string]interface{}
	if f, e := os.Open(out); e == nil {
		sc := bufio.NewScanner(f)
		for sc.Scan() {
			var m map[string]interface{}
			if json.Unmarshal(sc.Bytes(), &m) == nil {
				m["label"] = "bounded audit of an assumption, not proof"
				res = append(res, m)
			}
		}
		f.Close()
	}
	if err != nil {
		return res, fmt.Errorf("assumption audit failed: %s", trunc(buf.String(), 1500))
	}
	return res, nil
}

// Seeded change corpus: /verif/seeded/<id>/{patch.diff,meta.json}.
type seededMeta struct {
	ID       string   `json:"id"`
	Property string   `json:"property"`
	Summary  string   `json:"summary"`
	Needs    string   `json:"needs"`
	Expect   []string `json:"expect_properties"` // checks that must report a violation
	Origin   string   `json:"origin"`
	Status   string   `json:"status"` // caught | missed (documented) | benign
}

func loadSeeded() []seededMeta {
	var out []seededMeta
	dirs, _ := filepath.Glob(filepath.Join(verifDir, "seeded", "*", "meta.json"))
	sort.Strings(dirs)
	for _, f := range dirs {
		data, err := os.ReadFile(f)
		if err != nil {
			continue
		}
		var m seededMeta
		if json.Unmarshal(data, &m) != nil {
			continue
		}
		if m.ID == "" {
			m.ID = filepath.Base(filepath.Dir(f))
		}
		out = append(out, m)
	}
	return out
}

// runSelftest applies every corpus entry that names the property to a scratch
// copy (outside /repo and /verif, removed immediately) and requires the check
// to report a violation there.
func (p *Program) runSelftest(opts checkOpts) ([]map[string]interface{}, error) {
	var res []map[string]interface{}
	var firstErr error
	self, _ := os.Executable()
	for _, m := range loadSeeded() {
		want := false
		for _, e := range m.Expect {
			if e == opts.prop {
				want = true
			}
		}
		if !want {
			continue
		}
		scratch, err := os.MkdirTemp(envOr("VERIF_SCRATCH", "/var/tmp"), "bipverif-selftest-")
		if err != nil {
			return res, err
		}
		func() {
			defer os.RemoveAll(scratch)
			cp := exec.Command("rsync", "-a", "--exclude", ".git", p.RepoDir+"/", scratch+"/")
			if out, err := cp.CombinedOutput(); err != nil {
				firstErr = fmt.Errorf("copy: %v %s", err, out)
				return
			}
			patch := exec.Command("patch", "-p1", "-s", "-i", filepath.Join(verifDir, "seeded", m.ID, "patch.diff"))
			patch.Dir = scratch
			if out, err := patch.CombinedOutput(); err != nil {
				res = append(res, map[string]interface{}{"seeded": m.ID, "result": "patch does not apply to the current tree (skipped)", "detail": trunc(string(out), 200)})
				return
			}
			cmd := exec.Command(self, "check", "-tier", "quick", opts.prop)
			cmd.Env = append(os.Environ(), "VERIF_REPO="+scratch, "VERIF_DIR="+verifDir, "VERIF_WORK_SUFFIX=.selftest", "VERIF_NO_EVIDENCE=1")
			var buf bytes.Buffer
			cmd.Stdout, cmd.Stderr = &buf, &buf
			_ = cmd.Run()
			code := cmd.ProcessState.ExitCode()
			viol := 0
			found := 0
			for _, l := range strings.Split(buf.String(), "\n") {
				if strings.HasPrefix(l, "VIOLATION ") {
					viol++
					if !strings.Contains(l, "no-failing-input-found") {
						found++
					}
				}
			}
			r := map[string]interface{}{"seeded": m.ID, "summary": m.Summary, "exit": code, "violations": viol, "with_failing_input": found}
			if code != 1 || viol == 0 {
				r["result"] = "NOT CAUGHT"
				if firstErr == nil {
					firstErr = fmt.Errorf("self-test: seeded change %s (%s) is not caught by the %s check", m.ID, m.Summary, opts.prop)
				}
			} else {
				r["result"] = "caught"
			}
			res = append(res, r)
		}()
	}
	return res, firstErr
}

type benignMeta struct {
	ID         string   `json:"id"`
	Kind       string   `json:"kind"`
	File       string   `json:"file"`
	Sed        string   `json:"sed"`
	Patch      string   `json:"patch"`
	Properties []string `json:"properties"`
	Summary    string   `json:"summary"`
}

// runBenign applies each property-preserving rewrite of selftest/benign that
// names the property to a scratch copy and requires the check to stay quiet.
func (p *Program) runBenign(opts checkOpts) ([]map[string]interface{}, error) {
	var res []map[string]interface{}
	var firstErr error
	self, _ := os.Executable()
	files, _ := filepath.Glob(filepath.Join(verifDir, "selftest", "benign", "*.json"))
	sort.Strings(files)
	for _, f := range files {
		data, err := os.ReadFile(f)
		if err != nil {
			continue
		}
		var m benignMeta
		if json.Unmarshal(data, &m) != nil {
			continue
		}
		want := false
		for _, e := range m.Properties {
			if e == opts.prop {
				want = true
			}
		}
		if !want {
			continue
		}
		scratch, err := os.MkdirTemp(envOr("VERIF_SCRATCH", "/var/tmp"), "bipverif-benign-")
		if err != nil {
			return res, err
		}
		func() {
			defer os.RemoveAll(scratch)
			if out, err := exec.Command("rsync", "-a", "--exclude", ".git", p.RepoDir+"/", scratch+"/").CombinedOutput(); err != nil {
				firstErr = fmt.Errorf("copy: %v %s", err, out)
				return
			}
			var ed *exec.Cmd
			if m.Kind == "patch" {
				ed = exec.Command("patch", "-p1", "-s", "-i", filepath.Join(verifDir, "selftest", "benign", m.Patch))
			} else {
				ed = exec.Command("sed", "-i", "-E", m.Sed, m.File)
			}
			ed.Dir = scratch
			before, _ := os.ReadFile(filepath.Join(scratch, m.File))
			if out, err := ed.CombinedOutput(); err != nil {
				res = append(res, map[string]interface{}{"benign": m.ID, "result": "does not apply to the current tree (skipped)", "detail": trunc(string(out), 200)})
				return
			}
			if m.Kind != "patch" {
				after, _ := os.ReadFile(filepath.Join(scratch, m.File))
				if string(before) == string(after) {
					res = append(res, map[string]interface{}{"benign": m.ID, "result": "does not apply to the current tree (skipped)"})
					return
				}
			}
			cmd := exec.Command(self, "check", "-tier", "quick", opts.prop)
			cmd.Env = append(os.Environ(), "VERIF_REPO="+scratch, "VERIF_DIR="+verifDir, "VERIF_WORK_SUFFIX=.benign", "VERIF_NO_EVIDENCE=1")
			var buf bytes.Buffer
			cmd.Stdout, cmd.Stderr = &buf, &buf
			_ = cmd.Run()
			code := cmd.ProcessState.ExitCode()
			r := map[string]interface{}{"benign": m.ID, "summary": m.Summary, "exit": code}
			if code != 0 {
				r["result"] = "FALSE ALARM"
				if firstErr == nil {
					firstErr = fmt.Errorf("self-test: property-preserving rewrite %s makes the %s check report a violation", m.ID, opts.prop)
				}
			} else {
				r["result"] = "quiet"
			}
			res = append(res, r)
		}()
	}
	return res, firstErr
}
