package main

// Ownership / frame discipline over the SSA of every function of the library
// package (C12, parts of C07 and C13). These obligations are decided by
// inspection of the instruction stream (back end "scan"); together with the
// assumed sync.Once contract and the Go memory model they imply that no two
// conflicting accesses to package-level state are concurrent. Schedules are
// not explored.

import (
	"fmt"
	"go/types"
	"sort"
	"strings"

	"golang.org/x/tools/go/ssa"
)

func scanObl(name string, tags []string, ok bool, clause, witness string) *Obligation {
	o := &Obligation{Name: "discipline/" + name, Fn: "discipline", Kind: "discipline", Tags: tags, Expect: "unsat", Clause: clause}
	if ok {
		o.Trivial = true
		o.Result = SolverResult{Status: "unsat", Solver: "scan"}
	} else {
		o.Failed = true
		o.Reason = witness
	}
	return o
}

type fnInfo struct {
	fn        *ssa.Function
	name      string
	verifOnly bool
	isInit    bool
	onceOf    *ssa.Global // non-nil: this literal is passed to O.Do for exactly this Once
}

func (p *Program) disciplineObligations() []*Obligation {
	var obls []*Obligation
	var fns []*fnInfo
	byFn := map[*ssa.Function]*fnInfo{}
	for _, f := range p.allFunctions() {
		fi := &fnInfo{fn: f.fn, name: p.contractName(f.fn), verifOnly: f.verifOnly}
		fns = append(fns, fi)
		byFn[f.fn] = fi
	}
	if init := p.Main.Func("init"); init != nil {
		fi := &fnInfo{fn: init, name: "init", isInit: true}
		fns = append(fns, fi)
		byFn[init] = fi
	}
	pos := func(in ssa.Instruction) string {
		if in == nil || !in.Pos().IsValid() {
			return ""
		}
		pp := p.Fset.Position(in.Pos())
		return fmt.Sprintf("%s:%d", relPath(p.RepoDir, pp.Filename), pp.Line)
	}
	// --- which literal is passed to which Once
	type doCall struct {
		once *ssa.Global
		lit  *ssa.Function
		in   *ssa.Call
		fi   *fnInfo
	}
	var doCalls []doCall
	litUses := map[*ssa.Function]int{} // references to a function literal other than as Do argument
	for _, fi := range fns {
		for _, b := range fi.fn.Blocks {
			for _, in := range b.Instrs {
				c, ok := in.(*ssa.Call)
				if ok && !c.Call.IsInvoke() {
					if callee, ok := c.Call.Value.(*ssa.Function); ok && callee.String() == "(*sync.Once).Do" && len(c.Call.Args) == 2 {
						var once *ssa.Global
						if g, ok := c.Call.Args[0].(*ssa.Global); ok {
							once = g
						}
						var lit *ssa.Function
						switch a := c.Call.Args[1].(type) {
						case *ssa.Function:
							lit = a
						case *ssa.MakeClosure:
							lit, _ = a.Fn.(*ssa.Function)
						}
						doCalls = append(doCalls, doCall{once, lit, c, fi})
						continue
					}
				}
				// any other operand that is a function literal of this package
				for _, op := range in.Operands(nil) {
					if op == nil || *op == nil {
						continue
					}
					if f, ok := (*op).(*ssa.Function); ok && f.Parent() != nil && byFn[f] != nil {
						litUses[f]++
					}
					if mc, ok := (*op).(*ssa.MakeClosure); ok {
						if f, ok := mc.Fn.(*ssa.Function); ok && byFn[f] != nil {
							_ = f
						}
					}
				}
			}
		}
	}
	onceLit := map[*ssa.Global][]*ssa.Function{}
	for _, d := range doCalls {
		if d.fi.verifOnly {
			continue
		}
		ok := d.once != nil && d.lit != nil
		obls = append(obls, scanObl("once-static@"+pos(d.in), []string{"C12"}, ok, "Once.Do is called on a package-level sync.Once with a function literal", "dynamic receiver or function at "+pos(d.in)))
		if ok {
			onceLit[d.once] = append(onceLit[d.once], d.lit)
			if fi := byFn[d.lit]; fi != nil {
				fi.onceOf = d.once
			}
		}
	}
	// the Do-call of a literal is not counted by the operand scan above for
	// Function operands? it is (Args[1]); subtract those
	for _, d := range doCalls {
		if d.lit != nil {
			litUses[d.lit]--
		}
	}
	// --- per package-level variable
	var globals []*ssa.Global
	for _, m := range p.Main.Members {
		if g, ok := m.(*ssa.Global); ok && g.Name() != "init$guard" {
			globals = append(globals, g)
		}
	}
	sort.Slice(globals, func(i, j int) bool { return globals[i].Name() < globals[j].Name() })
	guardedBy := map[*ssa.Global]*ssa.Global{} // variable -> once
	onceGuards := map[*ssa.Global][]*ssa.Global{}
	for _, g := range globals {
		if d := p.Contracts.Globals[g.Name()]; d != nil && d.Kind == "guarded_by" {
			o := p.globalByName(d.Once)
			guardedBy[g] = o
			if o != nil {
				onceGuards[o] = append(onceGuards[o], g)
			}
		}
	}
	var exempt []string
	for _, g := range globals {
		isOnce := isNamed(g.Type().(*types.Pointer).Elem(), "sync", "Once")
		once, guarded := guardedBy[g]
		var badWrites, badUses, undominated, through []string
		nWrites, nReads := 0, 0
		for _, fi := range fns {
			for _, b := range fi.fn.Blocks {
				for idx, in := range b.Instrs {
					uses := false
					for _, op := range in.Operands(nil) {
						if op != nil && *op == ssa.Value(g) {
							uses = true
						}
					}
					if !uses {
						continue
					}
					if fi.verifOnly {
						exempt = append(exempt, fmt.Sprintf("%s uses %s at %s", fi.name, g.Name(), pos(in)))
						continue
					}
					switch v := in.(type) {
					case *ssa.DebugRef:
					case *ssa.Store:
						if v.Addr == ssa.Value(g) {
							nWrites++
							switch {
							case fi.isInit:
							case guarded && fi.onceOf != nil && fi.onceOf == once:
							default:
								badWrites = append(badWrites, fmt.Sprintf("%s at %s", fi.name, pos(in)))
							}
						} else {
							badUses = append(badUses, fmt.Sprintf("address stored by %s at %s", fi.name, pos(in)))
						}
					case *ssa.UnOp:
						nReads++
						// F6: what the variable refers to (pointer target, map, slice
						// elements, the object behind an interface) is shared too: outside the
						// initialiser and the variable's own builder it is only read
						if !fi.isInit && !(guarded && fi.onceOf != nil && fi.onceOf == once) && g.Name() != "cryptoRander" {
							for _, w := range writesThrough(v) {
								through = append(through, fmt.Sprintf("%s by %s at %s", w.what, fi.name, pos(w.in)))
							}
						}
						if isOnce {
							badUses = append(badUses, fmt.Sprintf("sync.Once copied by %s at %s", fi.name, pos(in)))
						}
						if guarded && !fi.isInit && !(fi.onceOf != nil && fi.onceOf == once) {
							// F3: dominated by once.Do in the same function
							dom := false
							for _, d := range doCalls {
								if d.fi == fi && d.once == once {
									db := d.in.Block()
									if db == b {
										for k := 0; k < idx; k++ {
											if b.Instrs[k] == ssa.Instruction(d.in) {
												dom = true
											}
										}
									} else if db.Dominates(b) {
										dom = true
									}
								}
							}
							if !dom {
								undominated = append(undominated, fmt.Sprintf("%s at %s", fi.name, pos(in)))
							}
						}
					case *ssa.IndexAddr:
						// element address of a global array: only loads may follow
						for _, r := range *v.Referrers() {
							if st, ok := r.(*ssa.Store); ok && st.Addr == ssa.Value(v) && !fi.isInit {
								badWrites = append(badWrites, fmt.Sprintf("element store by %s at %s", fi.name, pos(r)))
							}
						}
					case *ssa.Call:
						okUse := false
						if callee, ok := v.Call.Value.(*ssa.Function); ok && callee.String() == "(*sync.Once).Do" && len(v.Call.Args) > 0 && v.Call.Args[0] == ssa.Value(g) && isOnce {
							okUse = true
						}
						if !okUse {
							badUses = append(badUses, fmt.Sprintf("address passed to a call by %s at %s", fi.name, pos(in)))
						}
					default:
						badUses = append(badUses, fmt.Sprintf("%T in %s at %s", in, fi.name, pos(in)))
					}
				}
			}
		}
		tags := []string{"C12", "C13"}
		if g.Name() == "cryptoRander" {
			tags = append(tags, "C07")
		}
		what := "written only by the package initialiser"
		if guarded {
			what = "written only by the package initialiser or inside the function literal passed to " + once.Name() + ".Do"
		}
		obls = append(obls, scanObl("writers/"+g.Name(), tags, len(badWrites) == 0, g.Name()+": "+what, strings.Join(badWrites, "; ")))
		obls = append(obls, scanObl("no-escape/"+g.Name(), tags, len(badUses) == 0, g.Name()+": address never escapes (only loads, stores, element reads, Once.Do receiver)", strings.Join(badUses, "; ")))
		obls = append(obls, scanObl("referent-read-only/"+g.Name(), tags, len(through) == 0, g.Name()+": what it refers to is never written outside the initialiser"+map[bool]string{true: " and its builder", false: ""}[guarded], strings.Join(through, "; ")))
		if guarded {
			obls = append(obls, scanObl("reads-after-do/"+g.Name(), []string{"C12"}, len(undominated) == 0, "every read of "+g.Name()+" outside its builder is dominated by "+once.Name()+".Do", strings.Join(undominated, "; ")))
			obls = append(obls, scanObl("once-exists/"+g.Name(), []string{"C12"}, once != nil && isNamed(once.Type().(*types.Pointer).Elem(), "sync", "Once"), g.Name()+" is guarded by a package-level sync.Once", "no such sync.Once"))
		}
		if isOnce {
			gs := onceGuards[g]
			lits := onceLit[g]
			ok := len(gs) == 1 && len(lits) >= 1
			for _, l := range lits {
				if l != lits[0] {
					ok = false
				}
			}
			w := fmt.Sprintf("guards %d variables, %d distinct literals", len(gs), len(lits))
			obls = append(obls, scanObl("once-one-to-one/"+g.Name(), []string{"C12", "C13"}, ok, g.Name()+" guards exactly one variable and runs exactly one function literal", w))
		}
		_ = nWrites
		_ = nReads
	}
	// literals passed to Do are not called or referenced elsewhere, and write only their own variable
	for once, lits := range onceLit {
		for _, l := range lits {
			if litUses[l] > 0 {
				obls = append(obls, scanObl("literal-private/"+p.contractName(l), []string{"C12"}, false, "the builder literal is referenced only as the argument of Do", fmt.Sprintf("%d other references", litUses[l])))
			}
			var foreign []string
			for _, b := range l.Blocks {
				for _, in := range b.Instrs {
					if st, ok := in.(*ssa.Store); ok {
						if g, ok := st.Addr.(*ssa.Global); ok && guardedBy[g] != once {
							foreign = append(foreign, g.Name()+" at "+pos(in))
						}
					}
				}
			}
			obls = append(obls, scanObl("literal-own-variable/"+p.contractName(l), []string{"C12", "C13"}, len(foreign) == 0, "the builder passed to "+once.Name()+".Do stores only to the variable that Once guards", strings.Join(foreign, "; ")))
		}
	}
	// subset gate
	for _, fi := range fns {
		if fi.verifOnly {
			continue
		}
		var bad []string
		for _, b := range fi.fn.Blocks {
			for _, in := range b.Instrs {
				switch v := in.(type) {
				case *ssa.Go:
					bad = append(bad, "go statement at "+pos(in))
				case *ssa.Send, *ssa.Select, *ssa.MakeChan:
					bad = append(bad, "channel operation at "+pos(in))
				case *ssa.UnOp:
					if v.Op.String() == "<-" {
						bad = append(bad, "channel receive at "+pos(in))
					}
				case *ssa.Call:
					if callee, ok := v.Call.Value.(*ssa.Function); ok && callee.Pkg != nil {
						switch callee.Pkg.Pkg.Path() {
						case "unsafe", "reflect":
							bad = append(bad, callee.String()+" at "+pos(in))
						}
					}
				case *ssa.Convert:
					if strings.Contains(v.Type().String(), "unsafe.Pointer") || strings.Contains(v.X.Type().String(), "unsafe.Pointer") {
						bad = append(bad, "unsafe conversion at "+pos(in))
					}
				}
			}
		}
		obls = append(obls, scanObl("subset/"+fi.name, []string{"C12"}, len(bad) == 0, fi.name+": no goroutines, channels, unsafe or reflection", strings.Join(bad, "; ")))
	}
	sort.Strings(exempt)
	p.verifExempt = exempt
	return obls
}

type throughWrite struct {
	what string
	in   ssa.Instruction
}

// writesThrough: writes to the memory that the loaded value v refers to, found
// by following the value through field / element addresses, sub-slices, phis
// and conversions: stores, map updates, copy/append targets, and calls of
// dependency functions whose assumed contract writes that argument.
func writesThrough(v ssa.Value) []throughWrite {
	switch v.Type().Underlying().(type) {
	case *types.Pointer, *types.Map, *types.Slice, *types.Interface:
	default:
		return nil
	}
	var out []throughWrite
	seen := map[ssa.Value]bool{}
	var walk func(x ssa.Value)
	walk = func(x ssa.Value) {
		if seen[x] || x.Referrers() == nil {
			return
		}
		seen[x] = true
		for _, r := range *x.Referrers() {
			switch u := r.(type) {
			case *ssa.FieldAddr:
				walk(u)
			case *ssa.IndexAddr:
				walk(u)
			case *ssa.Slice:
				walk(u)
			case *ssa.Phi:
				walk(u)
			case *ssa.ChangeType:
				walk(u)
			case *ssa.MakeInterface:
				walk(u)
			case *ssa.Store:
				if u.Addr == x {
					out = append(out, throughWrite{"store", u})
				}
			case *ssa.MapUpdate:
				if u.Map == x {
					out = append(out, throughWrite{"map update", u})
				}
			case *ssa.Call:
				cc := u.Call
				if b, ok := cc.Value.(*ssa.Builtin); ok {
					if (b.Name() == "copy" || b.Name() == "append") && len(cc.Args) > 0 && cc.Args[0] == x {
						out = append(out, throughWrite{b.Name() + " into it", u})
					}
					continue
				}
				var name string
				var args []ssa.Value
				if cc.IsInvoke() {
					name = "invoke " + typeShort(cc.Value.Type()) + "." + cc.Method.Name()
					args = append([]ssa.Value{cc.Value}, cc.Args...)
				} else if f, ok := cc.Value.(*ssa.Function); ok {
					name = f.String()
					args = cc.Args
				} else {
					continue
				}
				h := deps[name]
				if h == nil {
					continue // reported by the engine as an uncontracted call
				}
				for _, wi := range depWrites(name, h) {
					if wi < len(args) && args[wi] == x {
						out = append(out, throughWrite{"written by " + name, u})
					}
				}
			}
		}
	}
	walk(v)
	return out
}

// depWrites: which arguments (receiver first) the assumed contract of a
// dependency function writes.
func depWrites(name string, h *depHandler) []int {
	switch {
	case strings.HasPrefix(name, "(*math/big.Int)."):
		for _, t := range h.touch {
			if t == "BigVal" {
				return []int{0}
			}
		}
		if strings.HasSuffix(name, ".FillBytes") {
			return []int{1}
		}
		return nil
	case name == "invoke hash.Hash.Write":
		return []int{0}
	case name == "invoke hash.Hash.Sum":
		return []int{1}
	case name == "io.ReadFull", name == "io.ReadAtLeast", name == "invoke io.Reader.Read":
		return []int{0, 1}
	}
	var out []int
	if len(h.touch) > 0 {
		// unknown shape: any argument may be written
		for i := 0; i < 6; i++ {
			out = append(out, i)
		}
	}
	return out
}
