package main

// Instruction semantics.

import (
	"fmt"
	"go/token"
	"go/types"
	"math/big"
	"strings"

	"golang.org/x/tools/go/ssa"
)

func newBig(s string) (*big.Int, bool) { return new(big.Int).SetString(s, 10) }

func (ex *Exec) val(st *State, v ssa.Value) SV {
	switch x := v.(type) {
	case *ssa.Const:
		return ex.constVal(st, x)
	case *ssa.Global:
		if ex.p.isOurPkg(x.Pkg) {
			return SV{K: KPtr, Ptr: &Pointer{Kind: PGlobal, Global: x}}
		}
		return SV{K: KPtr, Ptr: &Pointer{Kind: PExt, Global: x}}
	case *ssa.Function:
		return SV{K: KFunc, Fn: x}
	case *ssa.Builtin:
		return SV{K: KOpaque, Why: "builtin value"}
	}
	if sv, ok := st.vals[v]; ok {
		return sv
	}
	panic(unsupported(fmt.Sprintf("value %s (%T) used before definition", v.Name(), v)))
}

func (ex *Exec) scalar(st *State, v ssa.Value) Term {
	sv := ex.val(st, v)
	if sv.K != KScalar {
		panic(unsupported(fmt.Sprintf("scalar expected for %s: %s", v.Name(), sv.Why)))
	}
	return sv.T
}

func (ex *Exec) allocRef(st *State) Term {
	if n, ok := modelInt(st.next.S); ok && isAtom(st.next.S) {
		st.next = IntLit(n.Int64() + 1)
		return IntLit(n.Int64())
	}
	r := ex.define(st, "ref", st.next)
	st.next = ex.define(st, "next", Add(r, IntLit(1)))
	return r
}

func (ex *Exec) sliceBytes(st *State, s SV) Term {
	mem := Select(st.heap["BMem"], s.Ref)
	return App(SBytes, "f_bsub", mem, s.Off, s.Len)
}

func (ex *Exec) sliceSeq(st *State, s SV) Term {
	return App(SSeq, "f_mkseq", Select(st.heap["SMem"], s.Ref), s.Off, s.Len)
}

// newByteSlice allocates a fresh []byte holding content (length n).
func (ex *Exec) newByteSlice(st *State, content Term, n Term) SV {
	r := ex.allocRef(st)
	st.heap["BMem"] = ex.define(st, "BMem", Store(st.heap["BMem"], r, content))
	st.assume(Eq(App(SInt, "f_blen", content), n))
	return SV{K: KSlice, Elem: "byte", Ref: r, Off: IntLit(0), Len: n, Cap: n}
}

func (ex *Exec) safety(st *State, label string, goal Term, instr ssa.Instruction, what string) {
	ex.oblige(st, "safety", fmt.Sprintf("%s@%s", label, ex.posOf(instr)), goal, []string{"C14"}, instr, what)
	st.assume(goal)
}

// step executes one non-control instruction. A non-nil result means the
// state was forked and the caller continues each returned state.
func (ex *Exec) step(st *State, in ssa.Instruction) []*State {
	switch v := in.(type) {
	case *ssa.DebugRef:
		return nil
	case *ssa.Alloc:
		ex.stepAlloc(st, v)
	case *ssa.Store:
		ex.stepStore(st, v)
	case *ssa.UnOp:
		ex.stepUnOp(st, v)
	case *ssa.BinOp:
		st.vals[v] = ex.binop(st, v)
	case *ssa.Convert:
		ex.stepConvert(st, v)
	case *ssa.ChangeType:
		st.vals[v] = ex.val(st, v.X)
	case *ssa.ChangeInterface:
		x := ex.val(st, v.X)
		if classify(v.Type()).What == "any" && x.K == KScalar && x.T.Sort == SErr {
			ex.declareFun("f_anyErr", []string{SErr}, SAny)
			x = Scalar(App(SAny, "f_anyErr", x.T))
		}
		st.vals[v] = x
	case *ssa.MakeInterface:
		ex.stepMakeInterface(st, v)
	case *ssa.Call:
		return ex.stepCall(st, v)
	case *ssa.Extract:
		t := ex.val(st, v.Tuple)
		if t.K != KTuple || v.Index >= len(t.Tuple) {
			panic(unsupported("extract from non-tuple"))
		}
		st.vals[v] = t.Tuple[v.Index]
	case *ssa.Slice:
		ex.stepSlice(st, v)
	case *ssa.MakeSlice:
		ex.stepMakeSlice(st, v)
	case *ssa.MakeMap:
		r := ex.allocRef(st)
		st.heap["MDom"] = ex.define(st, "MDom", Store(st.heap["MDom"], r, T(SASB, "((as const (Array Str Bool)) false)")))
		st.heap["MVal"] = ex.define(st, "MVal", Store(st.heap["MVal"], r, T(SASI, "((as const (Array Str Int)) 0)")))
		if v.Reserve != nil {
			_ = ex.val(st, v.Reserve) // a negative hint does not panic for maps
		}
		mt, ok := v.Type().Underlying().(*types.Map)
		if !ok || classify(mt.Key()).What != "string" || classify(mt.Elem()).What != "int" {
			panic(unsupported("map type outside the subset: " + v.Type().String()))
		}
		st.vals[v] = Scalar(r)
	case *ssa.MapUpdate:
		m := ex.scalar(st, v.Map)
		k := ex.scalar(st, v.Key)
		val := ex.scalar(st, v.Value)
		ex.safety(st, "nilmap", Not(Eq(m, IntLit(0))), v, "assignment to entry in nil map")
		st.heap["MDom"] = ex.define(st, "MDom", Store(st.heap["MDom"], m, Store(Select(st.heap["MDom"], m), k, TTrue)))
		st.heap["MVal"] = ex.define(st, "MVal", Store(st.heap["MVal"], m, Store(Select(st.heap["MVal"], m), k, val)))
	case *ssa.Lookup:
		ex.stepLookup(st, v)
	case *ssa.IndexAddr:
		ex.stepIndexAddr(st, v)
	case *ssa.Index:
		x := ex.val(st, v.X)
		idx := ex.scalar(st, v.Index)
		if x.K == KArray && x.T.Sort == SBytes {
			n := v.X.Type().Underlying().(*types.Array).Len()
			ex.safety(st, "index", And(Le(IntLit(0), idx), Lt(idx, IntLit(n))), v, "array index in range")
			t := ex.define(st, v.Name(), App(SInt, "f_bget", x.T, idx))
			st.assume(And(Le(IntLit(0), t), Lt(t, IntLit(256))))
			st.vals[v] = Scalar(t)
		} else if x.K == KArray {
			n := v.X.Type().Underlying().(*types.Array).Len()
			ex.safety(st, "index", And(Le(IntLit(0), idx), Lt(idx, IntLit(n))), v, "array index in range")
			st.vals[v] = Scalar(ex.define(st, v.Name(), Select(x.T, idx)))
		} else {
			panic(unsupported("index of non-array value"))
		}
	case *ssa.Phi:
		found := false
		for i, p := range v.Block().Preds {
			if p == st.pred {
				st.vals[v] = ex.val(st, v.Edges[i])
				found = true
				break
			}
		}
		if !found {
			panic(unsupported("phi without matching predecessor"))
		}
	case *ssa.MakeClosure:
		// captured variables are held as the closure's bindings (pointers to the
		// enclosing function's cells)
		sv := SV{K: KFunc, Fn: v.Fn.(*ssa.Function)}
		for _, b := range v.Bindings {
			sv.Tuple = append(sv.Tuple, ex.val(st, b))
		}
		st.vals[v] = sv
	case *ssa.RunDefers:
		return ex.runDefers(st, v)
	case *ssa.Defer:
		ex.stepDefer(st, v)
	case *ssa.Go:
		panic(unsupported("go statement"))
	case *ssa.Select, *ssa.Send:
		panic(unsupported("channel operation"))
	case *ssa.TypeAssert:
		panic(unsupported("type assertion"))
	case *ssa.Range, *ssa.Next:
		panic(unsupported("range over map/string"))
	case *ssa.FieldAddr:
		ex.stepFieldAddr(st, v)
	case *ssa.Field:
		x := ex.val(st, v.X)
		if x.K != KStruct || v.Field >= len(x.Fields) {
			panic(unsupported("field of unsupported struct value"))
		}
		st.vals[v] = x.Fields[v.Field]
	default:
		panic(unsupported(fmt.Sprintf("instruction %T", in)))
	}
	return nil
}

func (ex *Exec) stepAlloc(st *State, v *ssa.Alloc) {
	et := v.Type().(*types.Pointer).Elem()
	if isNamed(et, "math/big", "Int") {
		r := ex.allocRef(st)
		st.heap["BigVal"] = ex.define(st, "BigVal", Store(st.heap["BigVal"], r, IntLit(0)))
		st.vals[v] = Scalar(r)
		return
	}
	if strings.Contains(et.String(), "deferStack") {
		st.cells[v] = SV{K: KUnit}
		st.vals[v] = SV{K: KPtr, Ptr: &Pointer{Kind: PCell, Cell: v}}
		return
	}
	if n, ok := byteArrayLen(et); ok {
		// a local [N]byte is a block of N bytes in the byte heap; the cell keeps the
		// (never changing) view of the whole block, so indexing, slicing and calls
		// that take a slice of it all go through the ordinary slice rules
		r := ex.allocRef(st)
		st.heap["BMem"] = ex.define(st, "BMem", Store(st.heap["BMem"], r, App(SBytes, "f_zeros", IntLit(n))))
		st.cells[v] = SV{K: KSlice, Elem: "byte", Ref: r, Off: IntLit(0), Len: IntLit(n), Cap: IntLit(n), Why: "bytearray"}
		st.vals[v] = SV{K: KPtr, Ptr: &Pointer{Kind: PCell, Cell: v}}
		return
	}
	z := ex.zeroOfType(st, et)
	st.cells[v] = z
	st.vals[v] = SV{K: KPtr, Ptr: &Pointer{Kind: PCell, Cell: v}}
}

// byteArrayLen: t is [N]byte (possibly named).
func byteArrayLen(t types.Type) (int64, bool) {
	at, ok := t.Underlying().(*types.Array)
	if !ok {
		return 0, false
	}
	b, ok := at.Elem().Underlying().(*types.Basic)
	if !ok || b.Kind() != types.Uint8 {
		return 0, false
	}
	return at.Len(), true
}

// byteBlock: the cell of a local [N]byte (see stepAlloc).
func (ex *Exec) byteBlock(st *State, x SV) (SV, bool) {
	if x.K != KPtr || x.Ptr.Kind != PCell {
		return SV{}, false
	}
	c, ok := st.cells[x.Ptr.Cell]
	if !ok || c.K != KSlice || c.Why != "bytearray" {
		return SV{}, false
	}
	return c, true
}

func (ex *Exec) stepStore(st *State, v *ssa.Store) {
	addr := ex.val(st, v.Addr)
	val := ex.val(st, v.Val)
	if addr.K != KPtr {
		panic(unsupported("store through non-pointer"))
	}
	p := addr.Ptr
	if blk, ok := ex.byteBlock(st, addr); ok {
		// *arr = value: the block's bytes are replaced, the block stays where it is
		if val.K != KArray || val.T.Sort != SBytes {
			panic(unsupported("store of an unsupported value into a byte array"))
		}
		ex.writeBytes(st, blk, val.T, v)
		return
	}
	switch p.Kind {
	case PCell:
		st.cells[p.Cell] = val
	case PGlobal:
		if ex.isInit {
			ex.p.initStore(ex, st, p.Global, val)
			return
		}
		if _, ok := st.globals[p.Global]; !ok {
			ex.failObl("frame", "undeclared-global/"+p.Global.Name(), "store to a package-level variable that has no guarded_by discipline", []string{"C12", "C13"}, v)
			return
		}
		st.globals[p.Global] = val
	case PCellField:
		cur := st.cells[p.Cell]
		nv := SV{K: KStruct, Fields: append([]SV(nil), cur.Fields...)}
		nv.Fields[p.Field] = val
		st.cells[p.Cell] = nv
	case PExtField:
		panic(unsupported("store to a field of a dependency struct"))
	case PCellElem:
		arr := st.cells[p.Cell]
		if val.K != KScalar {
			panic(unsupported("array element of non-scalar type"))
		}
		nv := SV{K: KArray, T: Store(arr.T, p.Idx, val.T), Elems: map[int64]Term{}}
		for k, v := range arr.Elems {
			nv.Elems[k] = v
		}
		if n, ok := modelInt(p.Idx.S); ok && isAtom(p.Idx.S) {
			nv.Elems[n.Int64()] = val.T
		} else {
			nv.Elems = nil
		}
		st.cells[p.Cell] = nv
	case PSliceElem:
		b := *p.Base
		if val.K != KScalar {
			panic(unsupported("slice element of non-scalar type"))
		}
		switch b.Elem {
		case "string":
			arr := Select(st.heap["SMem"], b.Ref)
			st.heap["SMem"] = ex.define(st, "SMem", Store(st.heap["SMem"], b.Ref, Store(arr, Add(b.Off, p.Idx), val.T)))
		case "byte":
			mem := Select(st.heap["BMem"], b.Ref)
			st.heap["BMem"] = ex.define(st, "BMem", Store(st.heap["BMem"], b.Ref, App(SBytes, "f_bset", mem, Add(b.Off, p.Idx), val.T)))
		default:
			panic(unsupported("store to slice element of unsupported type"))
		}
	case PGlobalElem:
		if ex.isInit {
			cur, ok := ex.p.initVals[p.Global]
			if !ok {
				cur = ex.zeroOfType(st, p.Global.Type().(*types.Pointer).Elem())
			}
			if cur.K != KArray || val.K != KScalar {
				panic(unsupported("element store to global in init"))
			}
			ex.p.initVals[p.Global] = SV{K: KArray, T: Store(cur.T, p.Idx, val.T)}
			return
		}
		ex.failObl("frame", "global-element/"+p.Global.Name(), "store into a package-level array", []string{"C12", "C13"}, v)
	default:
		panic(unsupported("store through foreign pointer"))
	}
}

func (ex *Exec) load(st *State, p *Pointer, instr ssa.Instruction) SV {
	switch p.Kind {
	case PCell:
		sv, ok := st.cells[p.Cell]
		if !ok {
			panic(unsupported("load of unallocated cell"))
		}
		return sv
	case PGlobal:
		if sv, ok := st.globals[p.Global]; ok {
			return sv
		}
		if ex.isInit {
			if p.Global.Name() == "init$guard" {
				return Scalar(TFalse)
			}
			if sv, ok := ex.p.initVals[p.Global]; ok {
				return sv
			}
		}
		if sv, ok := ex.p.globalValue(p.Global); ok {
			return sv
		}
		panic(unsupported("load of package-level variable with unknown value: " + p.Global.Name()))
	case PExt:
		return ex.p.extGlobal(ex, st, p.Global)
	case PCellField:
		return st.cells[p.Cell].Fields[p.Field]
	case PExtField:
		c := classify(p.FType)
		if c.K != KScalar {
			panic(unsupported("field of a dependency struct with unsupported type"))
		}
		fn := "f_extfield_" + smtName(c.Sort)
		ex.declareFun(fn, []string{SInt, SInt}, c.Sort)
		return Scalar(App(c.Sort, fn, p.Obj, IntLit(int64(p.Field))))
	case PCellElem:
		arr := st.cells[p.Cell]
		return Scalar(Select(arr.T, p.Idx))
	case PGlobalElem:
		arr, ok := ex.p.globalValue(p.Global)
		if !ok {
			panic(unsupported("load from unknown global array"))
		}
		return Scalar(Select(arr.T, p.Idx))
	case PSliceElem:
		b := *p.Base
		switch b.Elem {
		case "string":
			w := Select(Select(st.heap["SMem"], b.Ref), Add(b.Off, p.Idx))
			// the same element through the sequence view (an instance of the mkseq axiom,
			// valid because the index was checked against len)
			st.assume(Eq(w, App(SStr, "f_sat", ex.sliceSeq(st, b), p.Idx)))
			return Scalar(w)
		case "byte":
			t := App(SInt, "f_bget", Select(st.heap["BMem"], b.Ref), Add(b.Off, p.Idx))
			st.assume(And(Le(IntLit(0), t), Lt(t, IntLit(256))))
			return Scalar(t)
		}
	}
	panic(unsupported("load through unsupported pointer"))
}

func (ex *Exec) stepUnOp(st *State, v *ssa.UnOp) {
	switch v.Op {
	case token.MUL:
		x := ex.val(st, v.X)
		if x.K != KPtr {
			panic(unsupported("load through non-pointer " + v.X.Name()))
		}
		if blk, ok := ex.byteBlock(st, x); ok {
			// the array VALUE: a copy of the block's bytes
			st.vals[v] = SV{K: KArray, Elem: "byte", T: ex.define(st, v.Name(), ex.sliceBytes(st, blk))}
			return
		}
		sv := ex.load(st, x.Ptr, v)
		if sv.K == KScalar {
			sv.T = ex.define(st, v.Name(), sv.T)
		}
		st.vals[v] = sv
	case token.NOT:
		st.vals[v] = Scalar(Not(ex.scalar(st, v.X)))
	case token.SUB:
		c := classify(v.Type())
		st.vals[v] = Scalar(ex.define(st, v.Name(), App(SInt, wrapFn(c), App(SInt, "-", ex.scalar(st, v.X)))))
	default:
		panic(unsupported("unary operator " + v.Op.String()))
	}
}

func (ex *Exec) binop(st *State, v *ssa.BinOp) SV {
	xs, ys := ex.val(st, v.X), ex.val(st, v.Y)
	if xs.K != KScalar || ys.K != KScalar {
		// comparison of slice/map with nil?
		if xs.K == KSlice && (v.Op == token.EQL || v.Op == token.NEQ) {
			// s == nil  <=> ref == 0 && cap == 0 (nil slice modelled with ref 0)
			panic(unsupported("slice comparison"))
		}
		panic(unsupported("binary operator on non-scalars"))
	}
	x, y := xs.T, ys.T
	ct := classify(v.X.Type())
	name := v.Name()
	switch v.Op {
	case token.EQL:
		return Scalar(Eq(x, y))
	case token.NEQ:
		return Scalar(Not(Eq(x, y)))
	}
	switch ct.What {
	case "bool":
		switch v.Op {
		case token.LAND:
			return Scalar(And(x, y))
		case token.LOR:
			return Scalar(Or(x, y))
		}
	case "string":
		switch v.Op {
		case token.ADD:
			return Scalar(ex.define(st, name, App(SStr, "f_cat", x, y)))
		}
		panic(unsupported("string operator " + v.Op.String()))
	case "int":
		w := wrapFn(ct)
		switch v.Op {
		case token.LSS:
			return Scalar(Lt(x, y))
		case token.LEQ:
			return Scalar(Le(x, y))
		case token.GTR:
			return Scalar(Gt(x, y))
		case token.GEQ:
			return Scalar(Ge(x, y))
		case token.ADD:
			return Scalar(ex.define(st, name, App(SInt, w, Add(x, y))))
		case token.SUB:
			return Scalar(ex.define(st, name, App(SInt, w, Sub(x, y))))
		case token.MUL:
			return Scalar(ex.define(st, name, App(SInt, w, Mul(x, y))))
		case token.QUO:
			ex.safety(st, "divzero", Not(Eq(y, IntLit(0))), v, "integer division by zero")
			return Scalar(ex.define(st, name, App(SInt, w, App(SInt, "tdiv", x, y))))
		case token.REM:
			ex.safety(st, "divzero", Not(Eq(y, IntLit(0))), v, "integer division by zero")
			return Scalar(ex.define(st, name, App(SInt, "trem", x, y)))
		case token.SHL, token.SHR:
			sc := classify(v.Y.Type())
			if sc.Signed {
				ex.safety(st, "negshift", Ge(y, IntLit(0)), v, "negative shift amount")
			}
			bits := IntLit(int64(ct.Bits))
			if v.Op == token.SHL {
				return Scalar(ex.define(st, name, Ite(Ge(y, bits), IntLit(0), App(SInt, w, Mul(x, App(SInt, "pow2m", y))))))
			}
			neg := Ite(Lt(x, IntLit(0)), IntLit(-1), IntLit(0))
			return Scalar(ex.define(st, name, Ite(Ge(y, bits), neg, App(SInt, "div", x, App(SInt, "pow2m", y)))))
		case token.AND, token.OR, token.XOR, token.AND_NOT:
			// x & (2^k - 1) is x mod 2^k for every two's-complement or unsigned x
			// (SMT mod is non-negative for a positive modulus)
			if v.Op == token.AND {
				for _, pr := range [][2]Term{{x, y}, {y, x}} {
					if m, ok := modelInt(pr[1].S); ok && isAtom(pr[1].S) && m.Sign() >= 0 {
						m1 := new(big.Int).Add(m, big.NewInt(1))
						if m1.BitLen() <= 63 && new(big.Int).And(m1, m).Sign() == 0 {
							return Scalar(ex.define(st, name, App(SInt, "mod", pr[0], T(SInt, m1.String()))))
						}
					}
				}
			}
			fn := map[token.Token]string{token.AND: "f_bitand", token.OR: "f_bitor", token.XOR: "f_bitxor", token.AND_NOT: "f_bitandnot"}[v.Op]
			ex.declareFun(fn, []string{SInt, SInt}, SInt)
			r := ex.define(st, name, App(SInt, fn, x, y))
			st.assume(ex.inRange(r, ct))
			// for non-negative operands: and <= both, or >= both, or/xor <= sum
			nn := And(Ge(x, IntLit(0)), Ge(y, IntLit(0)))
			switch v.Op {
			case token.AND:
				st.assume(Implies(nn, And(Ge(r, IntLit(0)), Le(r, x), Le(r, y))))
			case token.OR:
				st.assume(Implies(nn, And(Ge(r, x), Ge(r, y), Le(r, Add(x, y)))))
			case token.XOR:
				st.assume(Implies(nn, And(Ge(r, IntLit(0)), Le(r, Add(x, y)))))
			case token.AND_NOT:
				st.assume(Implies(nn, And(Ge(r, IntLit(0)), Le(r, x))))
			}
			return Scalar(r)
		}
	}
	panic(unsupported(fmt.Sprintf("binary operator %s on %s", v.Op, v.X.Type())))
}

func (ex *Exec) stepConvert(st *State, v *ssa.Convert) {
	from, to := classify(v.X.Type()), classify(v.Type())
	x := ex.val(st, v.X)
	switch {
	case from.What == "int" && to.What == "int":
		t := x.T
		if !(from.Signed == to.Signed && from.Bits <= to.Bits) && !(!from.Signed && to.Signed && from.Bits < to.Bits) {
			t = App(SInt, wrapFn(to), t)
		}
		st.vals[v] = Scalar(ex.define(st, v.Name(), t))
	case from.What == "string" && to.K == KSlice && to.Elem == "byte":
		content := App(SBytes, "f_bytesOf", x.T)
		n := ex.define(st, v.Name()+"_len", App(SInt, "f_blen", content))
		st.vals[v] = ex.newByteSlice(st, content, n)
	case from.K == KSlice && from.Elem == "byte" && to.What == "string":
		st.vals[v] = Scalar(ex.define(st, v.Name(), App(SStr, "f_strOf", ex.sliceBytes(st, x))))
	default:
		panic(unsupported(fmt.Sprintf("conversion %s -> %s", v.X.Type(), v.Type())))
	}
}

func (ex *Exec) stepMakeInterface(st *State, v *ssa.MakeInterface) {
	to := classify(v.Type())
	from := classify(v.X.Type())
	x := ex.val(st, v.X)
	switch to.What {
	case "any":
		switch from.What {
		case "string":
			st.vals[v] = Scalar(App(SAny, "f_anyStr", x.T))
		case "int":
			st.vals[v] = Scalar(App(SAny, "f_anyInt", x.T))
		case "error":
			ex.declareFun("f_anyErr", []string{SErr}, SAny)
			st.vals[v] = Scalar(App(SAny, "f_anyErr", x.T))
		case "struct":
			st.vals[v] = x // kept structured for the contracts of callees that take `any`
		default:
			st.vals[v] = Scalar(ex.fresh("any", SAny))
		}
	case "iface":
		if x.K == KScalar && x.T.Sort == SInt {
			st.vals[v] = x
			return
		}
		panic(unsupported("make interface " + v.Type().String() + " from " + v.X.Type().String()))
	default:
		panic(unsupported("make interface " + v.Type().String() + " from " + v.X.Type().String()))
	}
}

func (ex *Exec) stepSlice(st *State, v *ssa.Slice) {
	x := ex.val(st, v.X)
	var lo, hi Term
	hasLo, hasHi := v.Low != nil, v.High != nil
	if hasLo {
		lo = ex.scalar(st, v.Low)
	} else {
		lo = IntLit(0)
	}
	if v.Max != nil {
		panic(unsupported("3-index slice"))
	}
	switch {
	case x.K == KSlice:
		if hasHi {
			hi = ex.scalar(st, v.High)
		} else {
			hi = x.Len
		}
		ex.safety(st, "slice", And(Le(IntLit(0), lo), Le(lo, hi), Le(hi, x.Cap)), v, "slice bounds in range")
		st.vals[v] = SV{K: KSlice, Elem: x.Elem, Ref: x.Ref, Cell: x.Cell,
			Off: ex.define(st, v.Name()+"_off", Add(x.Off, lo)),
			Len: ex.define(st, v.Name()+"_len", Sub(hi, lo)),
			Cap: ex.define(st, v.Name()+"_cap", Sub(x.Cap, lo))}
	case x.K == KScalar && x.T.Sort == SStr:
		n := App(SInt, "f_strlen", x.T)
		if hasHi {
			hi = ex.scalar(st, v.High)
		} else {
			hi = n
		}
		ex.safety(st, "slice", And(Le(IntLit(0), lo), Le(lo, hi), Le(hi, n)), v, "string slice bounds in range")
		st.vals[v] = Scalar(ex.define(st, v.Name(), App(SStr, "f_substr", x.T, lo, hi)))
	case x.K == KPtr && x.Ptr.Kind == PCell && isByteBlock(ex, st, x):
		blk, _ := ex.byteBlock(st, x)
		if hasHi {
			hi = ex.scalar(st, v.High)
		} else {
			hi = blk.Len
		}
		ex.safety(st, "slice", And(Le(IntLit(0), lo), Le(lo, hi), Le(hi, blk.Cap)), v, "array slice bounds in range")
		st.vals[v] = SV{K: KSlice, Elem: "byte", Ref: blk.Ref, Off: lo, Len: ex.define(st, v.Name()+"_len", Sub(hi, lo)), Cap: ex.define(st, v.Name()+"_cap", Sub(blk.Cap, lo))}
	case x.K == KPtr && x.Ptr.Kind == PCell:
		// slice of a local array (varargs): t[:]
		at, ok := v.X.Type().(*types.Pointer).Elem().Underlying().(*types.Array)
		if !ok {
			panic(unsupported("slice of pointer to non-array"))
		}
		n := IntLit(at.Len())
		if hasHi {
			hi = ex.scalar(st, v.High)
		} else {
			hi = n
		}
		ex.safety(st, "slice", And(Le(IntLit(0), lo), Le(lo, hi), Le(hi, n)), v, "array slice bounds in range")
		st.vals[v] = SV{K: KSlice, Elem: elemClass(at.Elem()), Cell: x.Ptr.Cell, Ref: IntLit(-1), Off: lo, Len: Sub(hi, lo), Cap: Sub(n, lo)}
	default:
		panic(unsupported("slice of unsupported operand"))
	}
}

func (ex *Exec) stepMakeSlice(st *State, v *ssa.MakeSlice) {
	n := ex.scalar(st, v.Len)
	c := ex.scalar(st, v.Cap)
	ex.safety(st, "makeslice", And(Le(IntLit(0), n), Le(n, c), Lt(c, T(SInt, "4611686018427387904"))), v, "make: len out of range")
	et := elemClass(v.Type().Underlying().(*types.Slice).Elem())
	r := ex.allocRef(st)
	switch et {
	case "byte":
		st.heap["BMem"] = ex.define(st, "BMem", Store(st.heap["BMem"], r, App(SBytes, "f_zeros", c)))
	case "string":
		st.heap["SMem"] = ex.define(st, "SMem", Store(st.heap["SMem"], r, T(SAIS, "zeroStrArr")))
	default:
		panic(unsupported("make of slice with unsupported element type"))
	}
	st.vals[v] = SV{K: KSlice, Elem: et, Ref: r, Off: IntLit(0), Len: n, Cap: c}
}

func (ex *Exec) stepLookup(st *State, v *ssa.Lookup) {
	x := ex.val(st, v.X)
	if _, ok := v.X.Type().Underlying().(*types.Map); ok {
		m := x.T
		k := ex.scalar(st, v.Index)
		dom := ex.define(st, v.Name()+"_ok", Select(Select(st.heap["MDom"], m), k))
		val := ex.define(st, v.Name()+"_v", Ite(dom, Select(Select(st.heap["MVal"], m), k), IntLit(0)))
		if v.CommaOk {
			st.vals[v] = SV{K: KTuple, Tuple: []SV{Scalar(val), Scalar(dom)}}
		} else {
			st.vals[v] = Scalar(val)
		}
		return
	}
	if x.K == KScalar && x.T.Sort == SStr {
		idx := ex.scalar(st, v.Index)
		ex.safety(st, "index", And(Le(IntLit(0), idx), Lt(idx, App(SInt, "f_strlen", x.T))), v, "string index in range")
		ex.declareFun("f_strbyte", []string{SStr, SInt}, SInt)
		t := ex.define(st, v.Name(), App(SInt, "f_strbyte", x.T, idx))
		st.assume(And(Le(IntLit(0), t), Lt(t, IntLit(256))))
		st.vals[v] = Scalar(t)
		return
	}
	panic(unsupported("lookup on unsupported operand"))
}

func (ex *Exec) stepIndexAddr(st *State, v *ssa.IndexAddr) {
	x := ex.val(st, v.X)
	idx := ex.scalar(st, v.Index)
	switch {
	case x.K == KSlice:
		ex.safety(st, "index", And(Le(IntLit(0), idx), Lt(idx, x.Len)), v, "slice index in range")
		b := x
		st.vals[v] = SV{K: KPtr, Ptr: &Pointer{Kind: PSliceElem, Base: &b, Idx: idx}}
	case x.K == KPtr && x.Ptr.Kind == PCell && isByteBlock(ex, st, x):
		blk, _ := ex.byteBlock(st, x)
		ex.safety(st, "index", And(Le(IntLit(0), idx), Lt(idx, blk.Len)), v, "array index in range")
		st.vals[v] = SV{K: KPtr, Ptr: &Pointer{Kind: PSliceElem, Base: &blk, Idx: idx}}
	case x.K == KPtr && (x.Ptr.Kind == PCell || x.Ptr.Kind == PGlobal):
		at, ok := v.X.Type().(*types.Pointer).Elem().Underlying().(*types.Array)
		if !ok {
			panic(unsupported("IndexAddr on pointer to non-array"))
		}
		ex.safety(st, "index", And(Le(IntLit(0), idx), Lt(idx, IntLit(at.Len()))), v, "array index in range")
		if x.Ptr.Kind == PCell {
			st.vals[v] = SV{K: KPtr, Ptr: &Pointer{Kind: PCellElem, Cell: x.Ptr.Cell, Idx: idx}}
		} else {
			st.vals[v] = SV{K: KPtr, Ptr: &Pointer{Kind: PGlobalElem, Global: x.Ptr.Global, Idx: idx}}
		}
	default:
		panic(unsupported("IndexAddr on unsupported operand"))
	}
}

func isByteBlock(ex *Exec, st *State, x SV) bool {
	_, ok := ex.byteBlock(st, x)
	return ok
}

func (ex *Exec) stepFieldAddr(st *State, v *ssa.FieldAddr) {
	x := ex.val(st, v.X)
	switch {
	case x.K == KPtr && x.Ptr.Kind == PCell:
		if st.cells[x.Ptr.Cell].K != KStruct {
			panic(unsupported("field address of a non-struct cell"))
		}
		st.vals[v] = SV{K: KPtr, Ptr: &Pointer{Kind: PCellField, Cell: x.Ptr.Cell, Field: v.Field}}
	case x.K == KScalar && x.T.Sort == SInt:
		ex.safety(st, "nil", Not(Eq(x.T, IntLit(0))), v, "nil pointer dereference")
		ft := v.Type().(*types.Pointer).Elem()
		st.vals[v] = SV{K: KPtr, Ptr: &Pointer{Kind: PExtField, Obj: x.T, Field: v.Field, FType: ft}}
	default:
		panic(unsupported("field address of unsupported operand"))
	}
}

func (ex *Exec) stepDefer(st *State, v *ssa.Defer) {
	var args []SV
	if v.Call.IsInvoke() {
		args = append(args, ex.val(st, v.Call.Value))
	}
	for _, a := range v.Call.Args {
		args = append(args, ex.val(st, a))
	}
	d := deferred{call: v, args: args}
	if mc, ok := v.Call.Value.(*ssa.MakeClosure); ok {
		d.fn = ex.val(st, mc)
	}
	st.defers = append(st.defers, d)
}

// runDefers executes the deferred calls LIFO (simple form only: static or
// interface calls with an assumed contract; results are discarded).
func (ex *Exec) runDefers(st *State, at ssa.Instruction) []*State {
	states := []*State{st}
	defers := st.defers
	st.defers = nil
	for i := len(defers) - 1; i >= 0; i-- {
		d := defers[i]
		var next []*State
		for _, s := range states {
			if s.dead {
				continue
			}
			next = append(next, ex.runDeferred(s, d)...)
		}
		states = next
	}
	if len(states) == 1 && states[0] == st {
		return nil
	}
	if len(states) == 0 {
		st.dead = true
		return []*State{}
	}
	return states
}

// runDeferred executes one deferred call; the result is discarded.
func (ex *Exec) runDeferred(st *State, d deferred) []*State {
	{
		cc := d.call.Call
		var name string
		if cc.IsInvoke() {
			name = "invoke " + typeShort(cc.Value.Type()) + "." + cc.Method.Name()
		} else if f, ok := cc.Value.(*ssa.Function); ok {
			name = f.String()
		}
		// a deferred function literal or function of this module: executed here
		var callee *ssa.Function
		var binds []SV
		switch v := cc.Value.(type) {
		case *ssa.Function:
			callee = v
		case *ssa.MakeClosure:
			callee, _ = v.Fn.(*ssa.Function)
			binds = d.fn.Tuple
		}
		if !cc.IsInvoke() && callee != nil && deps[name] == nil && (ex.p.isOurPkg(callee.Pkg) || (callee.Parent() != nil && ex.p.isOurPkg(callee.Parent().Pkg))) {
			ex.curBinds = binds
			forks, ok := ex.inlineCall(st, nil, callee, d.args)
			ex.curBinds = nil
			if ok {
				return forks
			}
			ex.failObl("subset", "deferred-call/"+shortName(ex.p.contractName(callee)), "deferred call that cannot be executed inline (recursion, nested defer, go statement, or a function under contract)", ex.fnTags(), d.call)
			ex.havocAll(st)
			return []*State{st}
		}
		h := deps[name]
		if h == nil {
			ex.failObl("dep", "uncontracted-defer/"+name, "deferred call without an assumed contract", ex.fnTags(), d.call)
			ex.havocAll(st)
			return []*State{st}
		}
		ex.noteDep(name)
		_ = h.fn(ex, st, nil, d.args)
	}
	return []*State{st}
}
