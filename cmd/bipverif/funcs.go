package main

import (
	"go/types"
	"sort"

	"golang.org/x/tools/go/ssa"
)

type ssaFn struct {
	fn        *ssa.Function
	verifOnly bool // defined in a file carrying the verif tag (ghost lemma)
}

// allFunctions lists every function, method and function literal of the
// library package (package initialiser excluded).
func (p *Program) allFunctions() []*ssaFn {
	var out []*ssaFn
	seen := map[*ssa.Function]bool{}
	var add func(f *ssa.Function)
	add = func(f *ssa.Function) {
		if f == nil || seen[f] || f.Blocks == nil {
			return
		}
		seen[f] = true
		if f.Synthetic != "" {
			return
		}
		file := p.Fset.Position(f.Pos()).Filename
		out = append(out, &ssaFn{fn: f, verifOnly: p.verifFiles[file]})
		for _, a := range f.AnonFuncs {
			add(a)
		}
	}
	for _, m := range p.Main.Members {
		switch v := m.(type) {
		case *ssa.Function:
			if v.Name() != "init" {
				add(v)
			}
		case *ssa.Type:
			for _, t := range []types.Type{v.Type(), types.NewPointer(v.Type())} {
				ms := p.SSA.MethodSets.MethodSet(t)
				for i := 0; i < ms.Len(); i++ {
					add(p.SSA.MethodValue(ms.At(i)))
				}
			}
		}
	}
	if p.Tool != nil {
		for _, m := range p.Tool.Members {
			if v, ok := m.(*ssa.Function); ok && v.Name() != "init" {
				add(v)
			}
		}
	}
	sort.Slice(out, func(i, j int) bool { return out[i].fn.Pos() < out[j].fn.Pos() })
	return out
}

// runLemma proves a pure lemma: ensures from requires and the prelude.
func (p *Program) runLemma(fc *FuncContract) []*Obligation {
	ex := p.newExec(nil, fc)
	func() {
		defer func() {
			if r := recover(); r != nil {
				if ue, ok := r.(unsupported); ok {
					ex.failObl("subset", "lemma", string(ue), nil, nil)
					return
				}
				panic(r)
			}
		}()
		st := ex.newEntryState()
		for i, pn := range fc.Params {
			ex.params[pn] = Scalar(ex.fresh("p_"+pn, sortByName(fc.PSorts[i])))
		}
		ctx := &specCtx{mode: "lemma"}
		for _, l := range fc.Lets {
			ex.lets[l.Name] = ex.spec(st, l.Expr, ctx)
			ex.letSrc[l.Name] = l.Src
		}
		for _, r := range fc.Requires {
			st.assume(ex.specBool(st, r.Expr, ctx))
		}
		cov := &Obligation{Name: ex.name + "/cover/entry", Fn: ex.name, Kind: "cover", Expect: "sat", Goal: "lemma hypotheses satisfiable"}
		cov.Script = ex.script(st, TTrue)
		ex.obls = append(ex.obls, cov)
		ex.entry = st.clone()
		for _, s := range ex.applySplits(st, "entry", nil) {
			for _, e := range fc.Ensures {
				ex.oblige(s, "lemma", e.Label, ex.specBool(s, e.Expr, ctx), e.Tags, nil, e.Src)
			}
		}
	}()
	return ex.obls
}
