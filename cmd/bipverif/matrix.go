package main

// matrix: one generation + one solve of every obligation of a tree, then the
// verdict each property's check would give (used to evaluate seeded changes
// against all 17 checks quickly). Replay runs only for the named property.

import (
	"flag"
	"fmt"
	"os"
	"path/filepath"
	"sort"
	"strconv"
	"strings"
)

func cmdMatrix(args []string) {
	fs := flag.NewFlagSet("matrix", flag.ExitOnError)
	target := fs.String("replay", "", "run the replay harness for this property's violations")
	_ = fs.Parse(args)
	seed, _ := strconv.ParseInt(envOr("VERIF_SEED", "1"), 10, 64)
	p, err := loadAll()
	if err != nil {
		fmt.Println("MATRIX load-error", err)
		os.Exit(2)
	}
	opts := checkOpts{prop: "C17", tier: "quick", seed: seed, timeoutS: 10}
	var obls []*Obligation
	obls = append(obls, p.groundObligations()...)
	obls = append(obls, p.generate("")...)
	p.inheritTags(obls)
	obls = append(obls, p.disciplineObligations()...)
	obls = append(obls, p.toolObligations(opts)...)
	work := filepath.Join(verifDir, "work", "matrix"+os.Getenv("VERIF_WORK_SUFFIX"))
	_ = os.RemoveAll(work)
	_ = os.MkdirAll(work, 0o755)
	solveAllTier(obls, opts, work)
	if acc := p.tryVariants(obls, opts, work); len(acc) > 0 {
		obls = replaceByVariants(obls, acc, func(o *Obligation) bool { return true })
	}
	for _, l := range p.variantLog {
		fmt.Println("bipverif: alternatives:", l)
	}
	var props []string
	for i := 1; i <= 17; i++ {
		props = append(props, fmt.Sprintf("C%02d", i))
	}
	var caught []string
	for _, prop := range props {
		byBase := map[string][]*Obligation{}
		var order []string
		for _, o := range obls {
			if o.Kind == "cover" || !hasTag(o, prop) || o.ok() {
				continue
			}
			b := baseName(o.Name)
			if _, ok := byBase[b]; !ok {
				order = append(order, b)
			}
			byBase[b] = append(byBase[b], o)
		}
		if len(order) == 0 {
			continue
		}
		found := 0
		if prop == *target {
			rd := filepath.Join(verifDir, "replays"+os.Getenv("VERIF_WORK_SUFFIX"))
			_ = os.MkdirAll(rd, 0o755)
			o2 := opts
			o2.prop = prop
			for _, b := range order {
				if p.replay(prop, byBase[b], o2, rd).Found {
					found++
				}
			}
		}
		sort.Strings(order)
		short := order
		if len(short) > 4 {
			short = short[:4]
		}
		fmt.Printf("MATRIX %s violations=%d with-input=%d :: %s\n", prop, len(order), found, strings.Join(short, " ; "))
		caught = append(caught, prop)
	}
	fmt.Printf("MATRIX-SUMMARY caught=%s\n", strings.Join(caught, ","))
}
