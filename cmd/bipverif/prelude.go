package main

// The SMT prelude: sorts, exact machine arithmetic, spec functions and the
// mathematical / dependency axioms. Everything asserted here is either a
// definition, a fact of positional notation, or an assumption listed in the
// assumption register (evidence "assumptions").

import (
	"fmt"
	"math/big"
	"strings"
)

// LangInfo is extracted from the tree under test with go/types.
type LangInfo struct {
	Names    []string       // index = constant value
	ByName   map[string]int // constant name -> value
	Japanese int            // value of the constant named Japanese (-1 if none)
	English  int
}

type SpecFn struct {
	Name string
	SMT  string
	Args []string
	Ret  string
}

// specFns is the vocabulary of the contract language (beyond operators).
var specFns = map[string]SpecFn{}

func regSpec(name, smt string, ret string, args ...string) {
	specFns[name] = SpecFn{name, smt, args, ret}
}

func init() {
	regSpec("pow2", "f_pow2", SInt, SInt)
	regSpec("pow256", "f_pow256", SInt, SInt)
	regSpec("shr11", "f_shr11", SInt, SInt, SInt)
	regSpec("digit", "f_digit", SInt, SInt, SInt)
	regSpec("bigshl", "f_bigshl", SInt, SInt, SInt)
	regSpec("bigand", "f_bigand", SInt, SInt, SInt)
	regSpec("be", "f_be", SInt, SBytes)
	regSpec("blen", "f_blen", SInt, SBytes)
	regSpec("mk", "f_mk", SBytes, SInt, SInt)
	regSpec("sha256", "f_sha256", SBytes, SBytes)
	regSpec("byte0", "f_byte0", SInt, SBytes)
	regSpec("sha0", "f_sha0", SInt, SBytes)
	regSpec("bcat", "f_bcat", SBytes, SBytes, SBytes)
	regSpec("bsub", "f_bsub", SBytes, SBytes, SInt, SInt)
	regSpec("zeros", "f_zeros", SBytes, SInt)
	regSpec("minbytes", "f_minbytes", SBytes, SInt)
	regSpec("minlen", "f_minlen", SInt, SInt)
	regSpec("bytesOf", "f_bytesOf", SBytes, SStr)
	regSpec("strOf", "f_strOf", SStr, SBytes)
	regSpec("join", "f_join", SStr, SSeq, SStr)
	regSpec("split", "f_split", SSeq, SStr, SStr)
	regSpec("fields", "f_fields", SSeq, SStr)
	regSpec("slen", "f_slen", SInt, SSeq)
	regSpec("sat", "f_sat", SStr, SSeq, SInt)
	regSpec("nfkd", "f_nfkd", SStr, SStr)
	regSpec("cat", "f_cat", SStr, SStr, SStr)
	regSpec("itoa", "f_itoa", SStr, SInt)
	regSpec("contains", "f_contains", SBool, SStr, SStr)
	regSpec("lst", "f_lst", SStr, SInt, SInt)
	regSpec("widx", "f_widx", SInt, SInt, SStr)
	regSpec("supported", "f_supported", SBool, SInt)
	regSpec("sepOf", "f_sepOf", SStr, SInt)
	regSpec("declName", "f_declName", SStr, SInt)
	regSpec("effLang", "f_effLang", SInt, SInt)
	regSpec("wlref", "f_wlref", SInt, SInt)
	regSpec("acc", "f_acc", SInt, SSeq, SInt, SInt, SInt)
	regSpec("horner", "f_horner", SInt, SSeq, SInt, SInt)
	regSpec("is", "f_is", SBool, SErr, SErr)
	regSpec("msg", "f_msg", SStr, SErr)
	regSpec("pbkdf2", "f_pbkdf2", SBytes, SBytes, SBytes, SInt, SInt, SInt)
	regSpec("validLen", "f_validLen", SBool, SInt)
	regSpec("validCount", "f_validCount", SBool, SInt)
	regSpec("stable", "f_stable", SBool, SSeq)
	regSpec("sepfree", "f_sepfree", SBool, SSeq, SStr)
	regSpec("wsfree", "f_wsfree", SBool, SSeq)
	regSpec("nows", "f_nows", SBool, SStr)
	regSpec("hassep", "f_hassep", SBool, SStr, SStr)
	regSpec("ravail", "f_ravail", SInt, SInt)
	regSpec("rseg", "f_rseg", SBytes, SInt, SInt, SInt)
	regSpec("mkseq", "f_mkseq", SSeq, SAIS, SInt, SInt)
	regSpec("sameSeq", "f_sameSeq", SBool, SSeq, SSeq)
	regSpec("wrap_i64", "wrap_i64", SInt, SInt)
	regSpec("tdiv", "tdiv", SInt, SInt, SInt)
	regSpec("errorfWord", "f_errorfWord", SBool, SErr) // marks errors made by fmt.Errorf without %w
}

func pow2str(k int) string { return new(big.Int).Lsh(big.NewInt(1), uint(k)).String() }

// Prelude returns the SMT-LIB header. native selects SMT-LIB strings for Str.
func Prelude(li *LangInfo, native bool) string {
	var b strings.Builder
	w := func(f string, a ...interface{}) { fmt.Fprintf(&b, f+"\n", a...) }
	w("(set-option :produce-models true)")
	w("(set-logic ALL)")
	if native {
		w("(define-sort Str () String)")
	} else {
		w("(declare-sort Str 0)")
	}
	w("(declare-sort Bytes 0)")
	w("(declare-sort SSeq 0)")
	w("(declare-sort Err 0)")
	w("(declare-sort Any 0)")
	// --- exact machine arithmetic over Int
	w("(define-fun wrap_i64 ((x Int)) Int (let ((m (mod x 18446744073709551616))) (ite (>= m 9223372036854775808) (- m 18446744073709551616) m)))")
	w("(define-fun wrap_u64 ((x Int)) Int (mod x 18446744073709551616))")
	w("(define-fun wrap_u8 ((x Int)) Int (mod x 256))")
	w("(define-fun wrap_i8 ((x Int)) Int (let ((m (mod x 256))) (ite (>= m 128) (- m 256) m)))")
	w("(define-fun wrap_u16 ((x Int)) Int (mod x 65536))")
	w("(define-fun wrap_i16 ((x Int)) Int (let ((m (mod x 65536))) (ite (>= m 32768) (- m 65536) m)))")
	w("(define-fun wrap_u32 ((x Int)) Int (mod x 4294967296))")
	w("(define-fun wrap_i32 ((x Int)) Int (let ((m (mod x 4294967296))) (ite (>= m 2147483648) (- m 4294967296) m)))")
	// truncated division as in Go (b != 0 is a safety obligation at the use)
	w("(define-fun tdiv ((a Int) (b Int)) Int (ite (>= a 0) (ite (> b 0) (div a b) (- (div a (- b)))) (ite (> b 0) (- (div (- a) b)) (div (- a) (- b)))))")
	w("(define-fun trem ((a Int) (b Int)) Int (- a (* b (tdiv a b))))")
	// 2^k for machine shifts (k in 0..63, 0 beyond: Go gives 0 for shifts >= width after wrap)
	b.WriteString("(define-fun pow2m ((k Int)) Int ")
	for k := 0; k <= 64; k++ {
		fmt.Fprintf(&b, "(ite (= k %d) %s ", k, pow2str(k))
	}
	b.WriteString("0")
	b.WriteString(strings.Repeat(")", 65))
	b.WriteString(")\n")
	// spec pow2: concrete table 0..64, uninterpreted above with ground facts
	w("(declare-fun f_pow2big (Int) Int)")
	b.WriteString("(define-fun f_pow2 ((k Int)) Int ")
	for k := 0; k <= 64; k++ {
		fmt.Fprintf(&b, "(ite (= k %d) %s ", k, pow2str(k))
	}
	b.WriteString("(f_pow2big k)")
	b.WriteString(strings.Repeat(")", 65))
	b.WriteString(")\n")
	for k := 65; k <= 272; k++ {
		w("(assert (= (f_pow2big %d) %s))", k, pow2str(k))
	}
	w("(declare-fun f_pow256 (Int) Int)")
	for k := 0; k <= 40; k++ {
		w("(assert (= (f_pow256 %d) %s))", k, pow2str(8*k))
	}
	w("(assert (forall ((k Int)) (! (> (f_pow256 k) 0) :pattern ((f_pow256 k)))))")
	// --- 11-bit digits as iterated division
	w("(declare-fun f_shr11 (Int Int) Int)")
	w("(assert (forall ((v Int)) (! (= (f_shr11 v 0) v) :pattern ((f_shr11 v 0)))))")
	// (the step equation shr11(v,p) = shr11(v,p-1) div 2048 is instantiated by the generator where a
	// proof needs it - `unfold` clauses - instead of being a self-triggering quantified axiom)
	w("(define-fun f_digit ((v Int) (p Int)) Int (mod (f_shr11 v p) 2048))")
	// --- math/big helpers
	w("(declare-fun f_bigshl (Int Int) Int)")
	for _, k := range bigshlConsts() {
		w("(assert (forall ((x Int)) (! (= (f_bigshl x %d) (* x %s)) :pattern ((f_bigshl x %d)))))", k, pow2str(k), k)
	}
	w("(declare-fun f_bigshr (Int Int) Int)")
	for k := 0; k <= 16; k++ {
		w("(assert (forall ((x Int)) (! (=> (>= x 0) (= (f_bigshr x %d) (div x %s))) :pattern ((f_bigshr x %d)))))", k, pow2str(k), k)
	}
	w("(declare-fun f_bigand (Int Int) Int)")
	for k := 0; k <= 16; k++ {
		m := new(big.Int).Sub(new(big.Int).Lsh(big.NewInt(1), uint(k)), big.NewInt(1))
		w("(assert (forall ((x Int)) (! (=> (>= x 0) (= (f_bigand x %s) (mod x %s))) :pattern ((f_bigand x %s)))))", m, pow2str(k), m)
	}
	w("(declare-fun f_bigor (Int Int) Int)")
	// --- byte strings (positional notation)
	w("(declare-fun f_blen (Bytes) Int)")
	w("(declare-fun f_be (Bytes) Int)")
	w("(declare-fun f_mk (Int Int) Bytes)")
	w("(declare-fun f_byte0 (Bytes) Int)")
	w("(declare-fun f_bcat (Bytes Bytes) Bytes)")
	w("(declare-fun f_bsub (Bytes Int Int) Bytes)") // bsub(b, off, len)
	w("(declare-fun f_zeros (Int) Bytes)")
	w("(declare-fun f_minbytes (Int) Bytes)")
	w("(declare-fun f_minlen (Int) Int)")
	w("(declare-const f_emptyB Bytes)")
	w("(assert (= (f_blen f_emptyB) 0))")
	w("(assert (forall ((b Bytes)) (! (>= (f_blen b) 0) :pattern ((f_blen b)))))")
	w("(assert (forall ((b Bytes)) (! (and (<= 0 (f_be b)) (< (f_be b) (f_pow256 (f_blen b)))) :pattern ((f_be b)))))")
	w("(assert (forall ((b Bytes)) (! (= (f_mk (f_be b) (f_blen b)) b) :pattern ((f_be b)))))")
	w("(assert (forall ((x Int) (k Int)) (! (=> (and (<= 0 x) (>= k 0) (< x (f_pow256 k))) (and (= (f_be (f_mk x k)) x) (= (f_blen (f_mk x k)) k))) :pattern ((f_mk x k)))))")
	w("(assert (forall ((b Bytes)) (! (and (<= 0 (f_byte0 b)) (< (f_byte0 b) 256)) :pattern ((f_byte0 b)))))")
	w("(assert (forall ((b Bytes)) (! (=> (>= (f_blen b) 1) (and (= (f_be (f_bsub b 0 1)) (f_byte0 b)) (= (f_blen (f_bsub b 0 1)) 1))) :pattern ((f_bsub b 0 1)))))")
	w("(assert (forall ((b Bytes)) (! (= (f_bsub b 0 (f_blen b)) b) :pattern ((f_bsub b 0 (f_blen b))))))")
	w("(assert (forall ((b Bytes) (o Int) (n Int)) (! (=> (and (<= 0 o) (<= 0 n) (<= (+ o n) (f_blen b))) (= (f_blen (f_bsub b o n)) n)) :pattern ((f_bsub b o n)))))")
	w("(assert (forall ((a Bytes) (b Bytes)) (! (= (f_blen (f_bcat a b)) (+ (f_blen a) (f_blen b))) :pattern ((f_bcat a b)))))")
	w("(assert (forall ((b Bytes)) (! (= (f_bcat f_emptyB b) b) :pattern ((f_bcat f_emptyB b)))))")
	w("(assert (forall ((b Bytes)) (! (= (f_bcat b f_emptyB) b) :pattern ((f_bcat b f_emptyB)))))")
	w("(assert (forall ((k Int)) (! (=> (>= k 0) (and (= (f_blen (f_zeros k)) k) (= (f_be (f_zeros k)) 0))) :pattern ((f_zeros k)))))")
	w("(assert (= (f_zeros 0) f_emptyB))")
	w("(assert (forall ((b Bytes) (o Int)) (! (= (f_bsub b o 0) f_emptyB) :pattern ((f_bsub b o 0)))))")
	// single bytes: read, write, and how they show through zeros / sub-ranges
	w("(declare-fun f_bget (Bytes Int) Int)")
	w("(declare-fun f_bset (Bytes Int Int) Bytes)")
	w("(assert (forall ((b Bytes) (i Int) (v Int)) (! (= (f_blen (f_bset b i v)) (f_blen b)) :pattern ((f_bset b i v)))))")
	w("(assert (forall ((b Bytes) (i Int) (v Int)) (! (=> (and (<= 0 i) (< i (f_blen b)) (<= 0 v) (< v 256)) (= (f_bget (f_bset b i v) i) v)) :pattern ((f_bset b i v)))))")
	w("(assert (forall ((b Bytes) (i Int) (v Int) (j Int)) (! (=> (not (= i j)) (= (f_bget (f_bset b i v) j) (f_bget b j))) :pattern ((f_bget (f_bset b i v) j)))))")
	w("(assert (forall ((k Int) (i Int)) (! (=> (and (<= 0 i) (< i k)) (= (f_bget (f_zeros k) i) 0)) :pattern ((f_bget (f_zeros k) i)))))")
	w("(assert (forall ((b Bytes) (o Int) (n Int) (i Int)) (! (=> (and (<= 0 o) (<= 0 i) (< i n) (<= (+ o n) (f_blen b))) (= (f_bget (f_bsub b o n) i) (f_bget b (+ o i)))) :pattern ((f_bget (f_bsub b o n) i)))))")
	w("(assert (forall ((b Bytes)) (! (=> (>= (f_blen b) 1) (= (f_bget b 0) (f_byte0 b))) :pattern ((f_bget b 0)))))")
	// big.Int.Bytes(): minimal-length big-endian magnitude
	w("(assert (forall ((x Int)) (! (=> (>= x 0) (and (= (f_be (f_minbytes x)) x) (= (f_blen (f_minbytes x)) (f_minlen x)) (>= (f_minlen x) 0))) :pattern ((f_minbytes x)))))")
	for k := 0; k <= 40; k++ {
		w("(assert (forall ((x Int)) (! (=> (>= x 0) (= (<= (f_minlen x) %d) (< x %s))) :pattern ((f_minlen x)))))", k, pow2str(8*k))
	}
	// left padding: zeros(p) ++ minbytes(x) is the (p+minlen x)-byte representation
	w("(assert (forall ((p Int) (x Int)) (! (=> (and (>= p 0) (>= x 0)) (= (f_bcat (f_zeros p) (f_minbytes x)) (f_mk x (+ p (f_minlen x))))) :pattern ((f_bcat (f_zeros p) (f_minbytes x))))))")
	// --- hashing (uninterpreted)
	w("(declare-fun f_sha256 (Bytes) Bytes)")
	w("(assert (forall ((b Bytes)) (! (= (f_blen (f_sha256 b)) 32) :pattern ((f_sha256 b)))))")
	w("(define-fun f_sha0 ((b Bytes)) Int (f_byte0 (f_sha256 b)))")
	w("(declare-fun f_pbkdf2 (Bytes Bytes Int Int Int) Bytes)") // (pw, salt, iter, keylen, hashkind)
	w("(assert (forall ((p Bytes) (s Bytes) (i Int) (k Int) (h Int)) (! (=> (>= k 0) (= (f_blen (f_pbkdf2 p s i k h)) k)) :pattern ((f_pbkdf2 p s i k h)))))")
	// --- strings
	if native {
		w("(define-fun f_cat ((a Str) (b Str)) Str (str.++ a b))")
		w("(define-fun f_strlen ((a Str)) Int (str.len a))")
		w("(define-fun f_substr ((a Str) (lo Int) (hi Int)) Str (str.substr a lo (- hi lo)))")
		w("(define-fun f_contains ((a Str) (b Str)) Bool (str.contains a b))")
	} else {
		w("(declare-fun f_cat (Str Str) Str)")
		w("(declare-fun f_strlen (Str) Int)")
		w("(declare-fun f_substr (Str Int Int) Str)")
		w("(declare-fun f_contains (Str Str) Bool)")
		w("(assert (forall ((a Str)) (! (>= (f_strlen a) 0) :pattern ((f_strlen a)))))")
		w("(assert (forall ((a Str)) (! (f_contains a a) :pattern ((f_contains a a)))))")
		w("(assert (forall ((a Str) (b Str) (x Str)) (! (=> (or (f_contains a x) (f_contains b x)) (f_contains (f_cat a b) x)) :pattern ((f_contains (f_cat a b) x)))))")
	}
	w("(declare-fun f_itoa (Int) Str)")
	w("(declare-fun f_bytesOf (Str) Bytes)")
	w("(declare-fun f_strOf (Bytes) Str)")
	w("(assert (forall ((s Str)) (! (= (f_strOf (f_bytesOf s)) s) :pattern ((f_bytesOf s)))))")
	w("(assert (forall ((s Str)) (! (= (f_blen (f_bytesOf s)) (f_strlen s)) :pattern ((f_bytesOf s)))))")
	w("(assert (forall ((b Bytes)) (! (= (f_bytesOf (f_strOf b)) b) :pattern ((f_strOf b)))))")
	w("(assert (forall ((a Str) (b Str)) (! (= (f_bytesOf (f_cat a b)) (f_bcat (f_bytesOf a) (f_bytesOf b))) :pattern ((f_bytesOf (f_cat a b))))))")
	w("(declare-fun f_nfkd (Str) Str)")
	w("(declare-fun f_ascii (Str) Bool)")
	// N1 idempotence, N2 ASCII prefix (assumptions about x/text, audited)
	w("(assert (forall ((s Str)) (! (= (f_nfkd (f_nfkd s)) (f_nfkd s)) :pattern ((f_nfkd (f_nfkd s))))))")
	w("(assert (forall ((a Str) (s Str)) (! (=> (f_ascii a) (= (f_nfkd (f_cat a s)) (f_cat a (f_nfkd s)))) :pattern ((f_nfkd (f_cat a s))))))")
	// sequences of strings
	w("(declare-fun f_slen (SSeq) Int)")
	w("(declare-fun f_sat (SSeq Int) Str)")
	w("(declare-fun f_mkseq ((Array Int Str) Int Int) SSeq)")
	w("(declare-fun f_arrOf (SSeq) (Array Int Str))")
	w("(assert (forall ((s SSeq)) (! (>= (f_slen s) 0) :pattern ((f_slen s)))))")
	w("(assert (forall ((a (Array Int Str)) (o Int) (n Int)) (! (=> (>= n 0) (= (f_slen (f_mkseq a o n)) n)) :pattern ((f_mkseq a o n)))))")
	w("(assert (forall ((a (Array Int Str)) (o Int) (n Int) (j Int)) (! (=> (and (<= 0 j) (< j n)) (= (f_sat (f_mkseq a o n) j) (select a (+ o j)))) :pattern ((f_sat (f_mkseq a o n) j)))))")
	w("(assert (forall ((s SSeq) (j Int)) (! (= (select (f_arrOf s) j) (f_sat s j)) :pattern ((select (f_arrOf s) j)))))")
	w("(assert (forall ((s SSeq)) (! (= (f_mkseq (f_arrOf s) 0 (f_slen s)) s) :pattern ((f_arrOf s)))))")
	// extensionality of sequences, triggered explicitly by sameSeq(s, t)
	w("(declare-fun f_sameSeq (SSeq SSeq) Bool)")
	w("(declare-fun sk_ext (SSeq SSeq) Int)")
	w("(assert (forall ((s SSeq) (t SSeq)) (! (and (= (f_sameSeq s t) (= s t)) (or (= s t) (not (= (f_slen s) (f_slen t))) (and (<= 0 (sk_ext s t)) (< (sk_ext s t) (f_slen s)) (not (= (f_sat s (sk_ext s t)) (f_sat t (sk_ext s t))))))) :pattern ((f_sameSeq s t)))))")
	w("(declare-fun f_join (SSeq Str) Str)")
	w("(declare-fun f_split (Str Str) SSeq)")
	w("(declare-fun f_fields (Str) SSeq)")
	w("(declare-const lit_space Str)")
	w("(declare-const lit_u3000 Str)")
	w("(declare-const lit_empty Str)")
	if native {
		w("(assert (= lit_space \" \"))")
		w("(assert (= lit_u3000 \"\\u{3000}\"))")
		w("(assert (= lit_empty \"\"))")
	}
	// element predicates with Skolemised definitions (avoid nested quantifier hypotheses)
	w("(declare-fun f_nows (Str) Bool)")         // non-empty, no Unicode white space
	w("(declare-fun f_hassep (Str Str) Bool)")   // contains separator
	w("(declare-fun f_stable (SSeq) Bool)")      // every element NFKD-stable
	w("(declare-fun f_sepfree (SSeq Str) Bool)") // no element contains sep
	w("(declare-fun f_wsfree (SSeq) Bool)")      // every element nows
	w("(declare-fun sk_stable (SSeq) Int)")
	w("(declare-fun sk_sepfree (SSeq Str) Int)")
	w("(declare-fun sk_wsfree (SSeq) Int)")
	w("(assert (forall ((s SSeq)) (! (or (f_stable s) (and (<= 0 (sk_stable s)) (< (sk_stable s) (f_slen s)) (not (= (f_nfkd (f_sat s (sk_stable s))) (f_sat s (sk_stable s)))))) :pattern ((f_stable s)))))")
	w("(assert (forall ((s SSeq) (p Str)) (! (or (f_sepfree s p) (and (<= 0 (sk_sepfree s p)) (< (sk_sepfree s p) (f_slen s)) (f_hassep (f_sat s (sk_sepfree s p)) p))) :pattern ((f_sepfree s p)))))")
	w("(assert (forall ((s SSeq) (p Str) (j Int)) (! (=> (and (f_sepfree s p) (<= 0 j) (< j (f_slen s))) (not (f_hassep (f_sat s j) p))) :pattern ((f_sepfree s p) (f_sat s j)))))")
	w("(assert (forall ((s SSeq)) (! (or (f_wsfree s) (and (<= 0 (sk_wsfree s)) (< (sk_wsfree s) (f_slen s)) (not (f_nows (f_sat s (sk_wsfree s)))))) :pattern ((f_wsfree s)))))")
	w("(assert (forall ((x Str)) (! (=> (f_nows x) (and (not (= x lit_empty)) (not (f_hassep x lit_space)) (not (f_hassep x lit_u3000)))) :pattern ((f_nows x)))))")
	// strings.Join / Split / Fields (assumptions about package strings, audited)
	w("(assert (forall ((s SSeq) (p Str)) (! (=> (and (>= (f_slen s) 1) (f_sepfree s p)) (= (f_split (f_join s p) p) s)) :pattern ((f_join s p)))))")
	w("(assert (forall ((x Str) (p Str)) (! (and (= (f_join (f_split x p) p) x) (>= (f_slen (f_split x p)) 1) (f_sepfree (f_split x p) p)) :pattern ((f_split x p)))))")
	w("(assert (forall ((x Str)) (! (=> (f_wsfree (f_split x lit_space)) (= (f_fields x) (f_split x lit_space))) :pattern ((f_split x lit_space)))))")
	w("(assert (forall ((s SSeq) (p Str)) (! (=> (and (>= (f_slen s) 1) (not (= (f_sat s 0) lit_empty))) (not (= (f_join s p) lit_empty))) :pattern ((f_join s p)))))")
	// N3j: NFKD of a sentence of stable words joined by U+0020 or U+3000
	w("(assert (forall ((s SSeq) (p Str)) (! (=> (and (f_stable s) (or (= p lit_space) (= p lit_u3000))) (= (f_nfkd (f_join s p)) (f_join s lit_space))) :pattern ((f_nfkd (f_join s p))))))")
	// --- errors
	w("(declare-const nilErr Err)")
	w("(declare-fun f_eref (Err) Int)") // allocation stamp: 0 for nil, >0 otherwise
	w("(assert (= (f_eref nilErr) 0))")
	w("(assert (forall ((e Err)) (! (=> (= (f_eref e) 0) (= e nilErr)) :pattern ((f_eref e)))))")
	w("(assert (forall ((e Err)) (! (>= (f_eref e) 0) :pattern ((f_eref e)))))")
	w("(declare-fun f_is (Err Err) Bool)")
	w("(declare-fun f_msg (Err) Str)")
	w("(declare-fun f_plainErr (Err) Bool)") // errors.New / fmt.Errorf without %%w: Is == identity
	w("(assert (forall ((e Err)) (! (f_is e e) :pattern ((f_is e e)))))")
	w("(assert (forall ((t Err)) (! (=> (f_is nilErr t) (= t nilErr)) :pattern ((f_is nilErr t)))))") // errors.Is(nil, t) == (t == nil)
	w("(assert (forall ((e Err) (t Err)) (! (=> (and (f_plainErr e) (f_is e t)) (= e t)) :pattern ((f_is e t)))))")
	w("(declare-fun f_errNew (Int Str) Err)")
	// only for allocation stamps r > 0: stated for every r it would contradict eref >= 0 (and
	// eref == 0 ==> nil) at the terms errNew(-1, m), errNew(0, m), which exist in the logic even
	// though no execution builds them
	w("(assert (forall ((r Int) (m Str)) (! (=> (> r 0) (and (= (f_eref (f_errNew r m)) r) (= (f_msg (f_errNew r m)) m) (f_plainErr (f_errNew r m)))) :pattern ((f_errNew r m)))))")
	// --- any
	w("(declare-fun f_anyStr (Str) Any)")
	w("(declare-fun f_anyInt (Int) Any)")
	// --- readers (stream contract for io.ReadFull)
	w("(declare-fun f_ravail (Int) Int)")         // bytes the source delivers before failing/ending
	w("(declare-fun f_rseg (Int Int Int) Bytes)") // (reader, pos, n): the n bytes delivered from pos
	w("(assert (forall ((r Int) (p Int) (n Int)) (! (=> (>= n 0) (= (f_blen (f_rseg r p n)) n)) :pattern ((f_rseg r p n)))))")
	w("(assert (forall ((r Int) (p Int)) (! (= (f_rseg r p 0) f_emptyB) :pattern ((f_rseg r p 0)))))")
	// --- languages and lists
	nl := len(li.Names)
	w("(define-fun f_supported ((l Int)) Bool (and (<= 0 l) (< l %d)))", nl)
	w("(define-fun f_effLang ((l Int)) Int (ite (f_supported l) l %d))", li.English)
	w("(define-fun f_wlref ((l Int)) Int (+ l 1))")
	w("(define-fun f_sepOf ((l Int)) Str (ite (= l %d) lit_u3000 lit_space))", li.Japanese)
	w("(declare-fun f_lst (Int Int) Str)")
	w("(declare-fun f_widx (Int Str) Int)")
	w("(define-fun f_validLen ((n Int)) Bool (or (= n 16) (= n 20) (= n 24) (= n 28) (= n 32)))")
	w("(define-fun f_validCount ((n Int)) Bool (or (= n 12) (= n 15) (= n 18) (= n 21) (= n 24)))")
	return b.String()
}

// ListAxioms: each family is admitted, per language, only after the
// corresponding ground obligation on that language's composite literal in the
// current tree was discharged by evaluation (all=true admits everything: used
// by the vc debugging command).
func ListAxioms(li *LangInfo, facts map[string]bool, all bool) string {
	var b strings.Builder
	w := func(f string, a ...interface{}) { fmt.Fprintf(&b, f+"\n", a...) }
	w("(assert (forall ((l Int) (x Str)) (! (and (<= (- 1) (f_widx l x)) (< (f_widx l x) 2048)) :pattern ((f_widx l x)))))")
	w("(assert (forall ((l Int) (x Str)) (! (=> (>= (f_widx l x) 0) (and (f_supported l) (= (f_lst l (f_widx l x)) x))) :pattern ((f_widx l x)))))")
	okSet := func(f string) string {
		var alts []string
		for l, name := range li.Names {
			if all || (facts[name+"/len"] && facts[name+"/"+f]) {
				alts = append(alts, fmt.Sprintf("(= l %d)", l))
			}
		}
		switch len(alts) {
		case 0:
			return "false"
		case 1:
			return alts[0]
		}
		return "(or " + strings.Join(alts, " ") + ")"
	}
	w("(define-fun f_ok_distinct ((l Int)) Bool %s)", okSet("distinct"))
	w("(define-fun f_ok_nows ((l Int)) Bool %s)", okSet("nows"))
	w("(define-fun f_ok_stable ((l Int)) Bool %s)", okSet("stable"))
	// G2 distinctness: widx inverts lst
	w("(assert (forall ((l Int) (i Int)) (! (=> (and (f_ok_distinct l) (<= 0 i) (< i 2048)) (= (f_widx l (f_lst l i)) i)) :pattern ((f_lst l i)))))")
	w("(assert (forall ((l Int) (i Int)) (! (=> (and (f_ok_nows l) (<= 0 i) (< i 2048)) (f_nows (f_lst l i))) :pattern ((f_lst l i)))))")
	w("(assert (forall ((l Int) (i Int)) (! (=> (and (f_ok_stable l) (<= 0 i) (< i 2048)) (= (f_nfkd (f_lst l i)) (f_lst l i))) :pattern ((f_lst l i)))))")
	return b.String()
}

func bigshlConsts() []int {
	seen := map[int]bool{}
	var ks []int
	for k := 0; k <= 16; k++ {
		if !seen[k] {
			seen[k] = true
			ks = append(ks, k)
		}
	}
	for j := 0; j <= 24; j++ {
		if !seen[11*j] {
			seen[11*j] = true
			ks = append(ks, 11*j)
		}
	}
	return ks
}
