package main

func (p *Program) disciplineObligations() []*Obligation { return nil }
func (p *Program) toolObligations(opts checkOpts) []*Obligation { return nil }
func (p *Program) extraCoverage(prop string) map[string]interface{} { return nil }
func propertyExplanation(prop string) string { return "" }
func propertyAssumptions(prop string) []string { return nil }

