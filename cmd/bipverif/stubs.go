package main

import "strings"

func (p *Program) toolObligations(opts checkOpts) []*Obligation {
	obls := p.toolGroundObligations()
	if opts.prop == "C17" {
		o, stats := p.toolBounded(opts)
		p.bounded = stats
		obls = append(obls, o)
	}
	return obls
}
func (p *Program) extraCoverage(prop string) map[string]interface{} {
	out := map[string]interface{}{}
	if prop == "C17" && p.bounded != nil {
		out["bounded_parts"] = []interface{}{map[string]interface{}{
			"what":  "html/template.Execute inside updateWordlist (no contract within reach): BOUNDED run of the real tool, never counted as proved",
			"stats": p.bounded,
		}}
	}
	if p.audits != nil {
		out["assumption_audits"] = p.audits
	}
	if p.quickAudits != nil {
		out["assumption_audits_quick"] = p.quickAudits
	}
	if p.conformanceNote != "" {
		out["dependency_conformance_audit"] = p.conformanceNote
	}
	if p.probeSelftest != nil {
		out["prelude_probe_selftest"] = p.probeSelftest
	}
	if p.twinStats != nil {
		out["clause_twins"] = p.twinStats
	}
	if p.returnCoverStats != nil {
		out["return_path_covers"] = p.returnCoverStats
	}
	if p.crossCheck != nil {
		out["trusted_base_cross_check"] = p.crossCheck
	}
	if p.engineTest != nil {
		out["engine_semantics_selftest"] = p.engineTest
	}
	if p.benign != nil {
		out["selftest_benign_corpus"] = p.benign
	}
	{
		// proof alternatives declared by the contracts of the functions this property uses, and
		// whether this run had to fall back on one (never on the unchanged tree)
		var decl []string
		for _, n := range p.Contracts.Order {
			if fc := p.Contracts.Funcs[n]; len(fc.AltOrder) > 0 {
				decl = append(decl, n+": "+strings.Join(fc.AltOrder, ", "))
			}
		}
		if len(decl) > 0 {
			used := p.variantLog
			if used == nil {
				used = []string{}
			}
			out["proof_alternatives"] = map[string]interface{}{"declared": decl, "this_run": used,
				"rule": "base contract first; an alternative is generated only if an obligation of that function fails and accepted only if every obligation it generates is discharged"}
		}
	}
	if p.selftest != nil {
		out["selftest_must_fail_corpus"] = p.selftest
	}
	if len(p.verifExempt) > 0 && (prop == "C12" || prop == "C07" || prop == "C13") {
		out["verif_tagged_uses_of_package_state"] = p.verifExempt
	}
	return out
}
