package main

// BOUNDED stand-in for the one call that contracts cannot reach:
// html/template.Execute inside update-wordlist. The real tool (built from the
// tree under test with -tags verif) is run against an in-process HTTP server
// on a stated family of inputs; each output must parse as Go and its list
// must equal the non-empty input lines byte for byte. This part is labelled
// bounded in the evidence and never counted as proved.

import (
	"bytes"
	"context"
	"fmt"
	"go/ast"
	"go/parser"
	"go/token"
	"math/rand"
	"net"
	"net/http"
	"os"
	"os/exec"
	"path/filepath"
	"sort"
	"strconv"
	"strings"
	"sync"
	"time"
	"unicode"
)

type boundedStats struct {
	Files      int      `json:"files_generated"`
	Runs       int      `json:"tool_runs"`
	Families   []string `json:"input_families"`
	Bound      string   `json:"bound"`
	Failure    string   `json:"failure,omitempty"`
	FailInput  string   `json:"failing_input,omitempty"`
	FailTarget string   `json:"failing_target,omitempty"`
}

func parseGenerated(path string) (string, []string, error) {
	fset := token.NewFileSet()
	f, err := parser.ParseFile(fset, path, nil, 0)
	if err != nil {
		return "", nil, err
	}
	if f.Name.Name != "wordlist" {
		return "", nil, fmt.Errorf("package %s, want wordlist", f.Name.Name)
	}
	for _, d := range f.Decls {
		gd, ok := d.(*ast.GenDecl)
		if !ok || gd.Tok != token.VAR {
			continue
		}
		for _, sp := range gd.Specs {
			vs := sp.(*ast.ValueSpec)
			if len(vs.Names) != 1 || len(vs.Values) != 1 {
				continue
			}
			cl, ok := vs.Values[0].(*ast.CompositeLit)
			if !ok {
				continue
			}
			var ws []string
			for _, e := range cl.Elts {
				bl, ok := e.(*ast.BasicLit)
				if !ok || bl.Kind != token.STRING {
					return "", nil, fmt.Errorf("non-literal element")
				}
				s, err := strconv.Unquote(bl.Value)
				if err != nil {
					return "", nil, err
				}
				ws = append(ws, s)
			}
			return vs.Names[0].Name, ws, nil
		}
	}
	return "", nil, fmt.Errorf("no list variable")
}

// alphabet: every letter / combining mark of the reference lists plus
// representatives of L*/M* categories in the scripts BIP39 uses.
func (p *Program) toolAlphabet() []rune {
	set := map[rune]bool{}
	for _, wl := range p.loadWordLists() {
		for _, w := range wl.Words {
			for _, r := range w {
				set[r] = true
			}
		}
	}
	for _, tab := range []*unicode.RangeTable{unicode.Latin, unicode.Han, unicode.Hiragana, unicode.Katakana, unicode.Hangul} {
		n := 0
		for _, r16 := range tab.R16 {
			for r := rune(r16.Lo); r <= rune(r16.Hi) && n < 40; r += rune(r16.Stride) * 7 {
				if unicode.IsLetter(r) || unicode.IsMark(r) {
					set[r] = true
					n++
				}
			}
		}
	}
	for _, r := range []rune{0x300, 0x301, 0x302, 0x303, 0x308, 0x30a, 0x30c, 0x327, 0x3099, 0x309a, 0x1100, 0x1161, 0x11a8} {
		set[r] = true
	}
	var rs []rune
	for r := range set {
		if unicode.IsLetter(r) || unicode.IsMark(r) {
			rs = append(rs, r)
		}
	}
	sort.Slice(rs, func(i, j int) bool { return rs[i] < rs[j] })
	return rs
}

func (p *Program) toolBounded(opts checkOpts) (*Obligation, *boundedStats) {
	stats := &boundedStats{Bound: "quick: 20 tool runs x 10 targets; thorough: 500 runs x 10 targets; files of 0..8192 words over letters/combining marks, with/without trailing newline, blank lines at start/middle/end", Families: []string{
		"the ten reference lists (must reproduce the committed lists exactly)",
		"reference lists without trailing newline / with blank lines inserted",
		"0, 1, 2048, 4096, 8192 words (the largest well over 64 KiB)",
		"random words over every letter and combining mark occurring in any list plus L*/M* representatives of Latin, Han, Hiragana, Katakana, Hangul",
		"one run in which the first response for every file breaks off half way (the tool may give up; if it reports success its output must still be exact)",
	}}
	fail := func(f string, a ...interface{}) (*Obligation, *boundedStats) {
		stats.Failure = fmt.Sprintf(f, a...)
		o := &Obligation{Name: "bounded/update-wordlist/template-output", Fn: "update-wordlist", Kind: "bounded", Tags: []string{"C17"}, Expect: "unsat", Failed: true,
			Reason: stats.Failure, Clause: "for each input file of the stated family the generated file parses and its list equals the non-empty input lines (BOUNDED, not proved)"}
		return o, stats
	}
	tmp, err := os.MkdirTemp("", "bipverif-tool-")
	if err != nil {
		return fail("tmp: %v", err)
	}
	defer os.RemoveAll(tmp)
	bin := filepath.Join(tmp, "update-wordlist")
	cmd := exec.Command("go", "build", "-tags", "verif", "-o", bin, "./update-wordlist")
	cmd.Dir = p.RepoDir
	cmd.Env = append(os.Environ(), "GOFLAGS=-mod=mod", "GOPROXY=off", "GOSUMDB=off", "GOTOOLCHAIN=local")
	if out, err := cmd.CombinedOutput(); err != nil {
		return fail("cannot build the tool with -tags verif: %v %s", err, trunc(string(out), 500))
	}
	langs, order, bad := p.toolLangs()
	if bad != "" {
		return fail("langs: %s", bad)
	}
	sort.Strings(order)
	// server
	var mu sync.Mutex
	files := map[string][]byte{}
	flaky := false             // the first response for each file breaks off half way
	served := map[string]int{} // requests seen per file in the current run
	ln, err := net.Listen("tcp", "127.0.0.1:0")
	if err != nil {
		return fail("listen: %v", err)
	}
	srv := &http.Server{Handler: http.HandlerFunc(func(w http.ResponseWriter, r *http.Request) {
		mu.Lock()
		data, ok := files[filepath.Base(r.URL.Path)]
		served[filepath.Base(r.URL.Path)]++
		cut := flaky && served[filepath.Base(r.URL.Path)] == 1 && len(data) > 1
		mu.Unlock()
		if !ok {
			http.NotFound(w, r)
			return
		}
		if cut {
			// announce the whole body, deliver part of it, then drop the connection
			w.Header().Set("Content-Length", strconv.Itoa(len(data)))
			_, _ = w.Write(data[:len(data)/2])
			if f, ok := w.(http.Flusher); ok {
				f.Flush()
			}
			panic(http.ErrAbortHandler)
		}
		_, _ = w.Write(data)
	})}
	go func() { _ = srv.Serve(ln) }()
	defer srv.Close()
	base := "http://" + ln.Addr().String()

	rng := rand.New(rand.NewSource(opts.seed))
	alpha := p.toolAlphabet()
	randWord := func() string {
		n := 1 + rng.Intn(8)
		var b strings.Builder
		for i := 0; i < n; i++ {
			b.WriteRune(alpha[rng.Intn(len(alpha))])
		}
		return b.String()
	}
	refs := map[string][]string{}
	for stem, v := range langs {
		data, err := os.ReadFile(filepath.Join(verifDir, "ref", "wordlists", refFileName(v)))
		if err == nil {
			refs[stem] = strings.Split(strings.TrimSuffix(string(data), "\n"), "\n")
		}
	}
	runs := 20
	if opts.tier == "thorough" {
		runs = 500
	}
	runOnce := func(inputs map[string][]byte, breakFirst bool) (string, string, string) {
		mu.Lock()
		flaky = breakFirst
		served = map[string]int{}
		files = map[string][]byte{}
		for stem, d := range inputs {
			files[stem+".txt"] = d
		}
		mu.Unlock()
		wd, _ := os.MkdirTemp(tmp, "run-")
		defer os.RemoveAll(wd)
		_ = os.MkdirAll(filepath.Join(wd, "internal", "wordlist"), 0o755)
		// an older, longer generation is already there: the tool must replace it
		for stem := range inputs {
			_ = os.WriteFile(filepath.Join(wd, "internal", "wordlist", stem+".go"), bytes.Repeat([]byte("// stale line of an earlier run\n"), 8000), 0o644)
		}
		ctx, cancel := context.WithTimeout(context.Background(), 60*time.Second)
		defer cancel()
		c := exec.CommandContext(ctx, bin)
		c.Dir = wd
		c.Env = append(os.Environ(), "VERIF_WORDLIST_URL="+base)
		var buf bytes.Buffer
		c.Stdout, c.Stderr = &buf, &buf
		if err := c.Run(); err != nil {
			if breakFirst {
				// a download that broke off may make the tool give up; it must not make it write something else
				stats.Runs++
				return "", "", ""
			}
			return "tool failed: " + err.Error() + " " + trunc(buf.String(), 300), "", ""
		}
		stats.Runs++
		for stem, d := range inputs {
			stats.Files++
			var want []string
			for _, l := range strings.Split(string(d), "\n") {
				if l != "" {
					want = append(want, l)
				}
			}
			name, got, err := parseGenerated(filepath.Join(wd, "internal", "wordlist", stem+".go"))
			if err != nil {
				return "generated file does not parse: " + err.Error(), stem, string(d)
			}
			if name != langs[stem] {
				return fmt.Sprintf("variable %s, want %s", name, langs[stem]), stem, string(d)
			}
			if len(got) != len(want) {
				return fmt.Sprintf("%d words generated, %d non-empty input lines", len(got), len(want)), stem, string(d)
			}
			for i := range got {
				if got[i] != want[i] {
					return fmt.Sprintf("word %d: generated %q, input %q", i, got[i], want[i]), stem, string(d)
				}
			}
		}
		return "", "", ""
	}
	for run := 0; run < runs; run++ {
		inputs := map[string][]byte{}
		for _, stem := range order {
			var words []string
			switch {
			case run == 0:
				words = refs[stem]
			case run == 1:
				words = refs[stem]
			case run == 2:
				words = nil
				for i, w := range refs[stem] {
					if i%97 == 0 {
						words = append(words, "")
					}
					words = append(words, w)
				}
				words = append([]string{"", ""}, append(words, "", "")...)
			case run == 3:
				for i := 0; i < 8192; i++ {
					words = append(words, randWord())
				}
			case run == 4:
				words = nil
			case run == 5:
				words = []string{randWord()}
			default:
				n := []int{0, 1, 2, 17, 2048, 4096, 100, 300}[rng.Intn(8)]
				if opts.tier != "thorough" && n > 300 && run > 5 {
					n = 50
				}
				for i := 0; i < n; i++ {
					words = append(words, randWord())
					if rng.Intn(50) == 0 {
						words = append(words, "")
					}
				}
			}
			data := strings.Join(words, "\n")
			if run != 1 && (run == 0 || rng.Intn(2) == 0) && len(words) > 0 {
				data += "\n"
			}
			inputs[stem] = []byte(data)
		}
		if msg, stem, in := runOnce(inputs, run == 6); msg != "" {
			stats.FailTarget = stem
			stats.FailInput = trunc(in, 400)
			return fail("run %d target %s: %s", run, stem, msg)
		}
		if run == 0 {
			// canonical inputs must reproduce the committed lists: compared through the ground obligation C08/canonical
			// (committed == reference) and this run (generated == reference input)
		}
	}
	o := &Obligation{Name: "bounded/update-wordlist/template-output", Fn: "update-wordlist", Kind: "bounded", Tags: []string{"C17"}, Expect: "unsat", Trivial: true,
		Result: SolverResult{Status: "unsat", Solver: "bounded-run"}, Clause: "for each input file of the stated family the generated file parses and its list equals the non-empty input lines (BOUNDED, not proved)"}
	return o, stats
}
