package main

// Ground obligations: closed facts about the composite literals of
// internal/wordlist in the current tree, decided by evaluation over the AST
// (back end "eval"), exhaustively over the finite domain. Only facts that
// were discharged are admitted as axioms about lst/widx in SMT proofs.

import (
	"crypto/sha256"
	"encoding/hex"
	"fmt"
	"go/ast"
	"go/token"
	"os"
	"path/filepath"
	"strconv"
	"strings"
	"unicode"
	"unicode/utf8"

	"golang.org/x/text/unicode/norm"
	"golang.org/x/tools/go/ssa"
)

type WordList struct {
	Name  string
	Words []string
	Bad   string // non-literal element etc.
	File  string
}

func (p *Program) loadWordLists() map[string]*WordList {
	if p.wordLists != nil {
		return p.wordLists
	}
	out := map[string]*WordList{}
	for _, pk := range p.allPkgs() {
		if pk.PkgPath != modPath+"/internal/wordlist" {
			continue
		}
		for _, f := range pk.Syntax {
			fname := p.Fset.Position(f.Pos()).Filename
			for _, d := range f.Decls {
				gd, ok := d.(*ast.GenDecl)
				if !ok || gd.Tok != token.VAR {
					continue
				}
				for _, sp := range gd.Specs {
					vs := sp.(*ast.ValueSpec)
					for i, nm := range vs.Names {
						wl := &WordList{Name: nm.Name, File: relPath(p.RepoDir, fname)}
						out[nm.Name] = wl
						if i >= len(vs.Values) {
							wl.Bad = "no initialiser"
							continue
						}
						cl, ok := vs.Values[i].(*ast.CompositeLit)
						if !ok {
							wl.Bad = "initialiser is not a composite literal"
							continue
						}
						for _, e := range cl.Elts {
							bl, ok := e.(*ast.BasicLit)
							if !ok || bl.Kind != token.STRING {
								wl.Bad = "element is not a string literal"
								break
							}
							s, err := strconv.Unquote(bl.Value)
							if err != nil {
								wl.Bad = "bad literal"
								break
							}
							wl.Words = append(wl.Words, s)
						}
					}
				}
			}
		}
	}
	// any other function in the package (an init that edits the lists) breaks "value == literal"
	p.wordLists = out
	return out
}

func refFileName(lang string) string {
	var b strings.Builder
	for i, r := range lang {
		if unicode.IsUpper(r) && i > 0 {
			b.WriteByte('_')
		}
		b.WriteRune(unicode.ToLower(r))
	}
	return b.String() + ".txt"
}

func groundObl(name string, tags []string, ok bool, clause, witness string) *Obligation {
	o := &Obligation{Name: "ground/" + name, Fn: "ground", Kind: "ground", Tags: tags, Expect: "unsat", Clause: clause}
	if ok {
		o.Trivial = true
		o.Result = SolverResult{Status: "unsat", Solver: "eval"}
	} else {
		o.Failed = true
		o.Reason = witness
	}
	return o
}

// groundObligations evaluates G0..G7 for every language constant and records
// which families of list axioms may be admitted.
func (p *Program) groundObligations() []*Obligation {
	if p.groundDone {
		return p.groundObls
	}
	p.groundDone = true
	wls := p.loadWordLists()
	var obls []*Obligation
	facts := map[string]bool{}
	hints := map[string]map[string]string{}
	tagsData := []string{"C01", "C02", "C03", "C05", "C08", "C10"}
	// G0: the wordlist package has no function that could edit the lists after initialisation
	extra := ""
	if p.WL != nil {
		for n, m := range p.WL.Members {
			if _, isFn := m.(*ssa.Function); isFn && n != "init" {
				extra = n
			}
		}
	}
	obls = append(obls, groundObl("wordlist-package-has-only-data", []string{"C08", "C12", "C13"}, extra == "",
		"internal/wordlist declares variables only (no function can rewrite a list)", "function "+extra+" in internal/wordlist"))
	names := append([]string(nil), p.Lang.Names...)
	for _, lang := range names {
		wl := wls[lang]
		if wl == nil || wl.Bad != "" {
			why := "no variable named " + lang + " in internal/wordlist"
			if wl != nil {
				why = wl.Bad
			}
			obls = append(obls, groundObl(lang+"/literal", tagsData, false, "wordlist."+lang+" is a composite literal of string literals", why))
			continue
		}
		ws := wl.Words
		h := map[string]string{"lang": lang}
		hints[lang] = h
		// G1 length
		ok := len(ws) == 2048
		obls = append(obls, groundObl(lang+"/len2048", []string{"C01", "C02", "C03", "C05", "C08", "C14"}, ok, "len(wordlist."+lang+") == 2048", fmt.Sprintf("len = %d", len(ws))))
		facts[lang+"/len"] = ok
		// G2 distinct
		seen := map[string]int{}
		wit := ""
		for i, w := range ws {
			if j, dup := seen[w]; dup && wit == "" {
				wit = fmt.Sprintf("indices %d and %d both hold %q", j, i, w)
				h["dup_i"], h["dup_j"] = strconv.Itoa(j), strconv.Itoa(i)
			}
			seen[w] = i
		}
		obls = append(obls, groundObl(lang+"/distinct", []string{"C02", "C03", "C05", "C08", "C10", "C15"}, wit == "", "words of wordlist."+lang+" pairwise distinct", wit))
		facts[lang+"/distinct"] = wit == ""
		// G3..G5 non-empty, valid UTF-8, no white space
		wit = ""
		for i, w := range ws {
			bad := w == "" || !utf8.ValidString(w)
			for _, r := range w {
				if unicode.IsSpace(r) {
					bad = true
				}
			}
			if bad && wit == "" {
				wit = fmt.Sprintf("index %d holds %q", i, w)
				h["bad_i"] = strconv.Itoa(i)
			}
		}
		obls = append(obls, groundObl(lang+"/nonempty-utf8-nospace", []string{"C02", "C03", "C08", "C09", "C10"}, wit == "", "every word of wordlist."+lang+" is non-empty valid UTF-8 without white space", wit))
		facts[lang+"/nows"] = wit == ""
		// G6 NFKD-stable
		wit = ""
		for i, w := range ws {
			if norm.NFKD.String(w) != w && wit == "" {
				wit = fmt.Sprintf("index %d: %q is not in NFKD form", i, w)
				h["unstable_i"] = strconv.Itoa(i)
			}
		}
		obls = append(obls, groundObl(lang+"/nfkd-stable", []string{"C02", "C03", "C08", "C10", "C11", "C15"}, wit == "", "NFKD(w) == w for every word of wordlist."+lang, wit))
		facts[lang+"/stable"] = wit == ""
		// G7 equals the reference list
		ref, err := os.ReadFile(filepath.Join(verifDir, "ref", "wordlists", refFileName(lang)))
		wit = ""
		if err != nil {
			wit = "reference list missing: " + err.Error()
		} else {
			rw := strings.Split(strings.TrimSuffix(string(ref), "\n"), "\n")
			if len(rw) != len(ws) {
				wit = fmt.Sprintf("reference has %d words, tree has %d", len(rw), len(ws))
			}
			for i := 0; i < len(rw) && i < len(ws) && wit == ""; i++ {
				if rw[i] != ws[i] {
					wit = fmt.Sprintf("index %d: tree %q, canonical %q", i, ws[i], rw[i])
					h["diff_i"] = strconv.Itoa(i)
				}
			}
			want, _ := os.ReadFile(filepath.Join(verifDir, "ref", "wordlists", refFileName(lang)+".sha256"))
			sum := sha256.Sum256(ref)
			if wit == "" && strings.TrimSpace(string(want)) != hex.EncodeToString(sum[:]) {
				wit = "reference file does not match its recorded digest"
			}
		}
		obls = append(obls, groundObl(lang+"/canonical", []string{"C01", "C08", "C17"}, wit == "", "wordlist."+lang+" equals ref/wordlists/"+refFileName(lang)+" byte for byte", wit))
	}
	// every exported list has a language constant of the same name and vice versa
	p.listFacts = facts
	p.groundHints = hints
	p.preludeCache = map[bool]string{}
	p.groundObls = obls
	return obls
}

// refgen writes the reference lists from the tree (used once, at the pinned
// commit; the English digest is anchored to the published one).
func (p *Program) refgen(dir string) error {
	wls := p.loadWordLists()
	_ = os.MkdirAll(dir, 0o755)
	for _, lang := range p.Lang.Names {
		wl := wls[lang]
		if wl == nil || wl.Bad != "" {
			return fmt.Errorf("list %s not extractable", lang)
		}
		data := []byte(strings.Join(wl.Words, "\n") + "\n")
		if err := os.WriteFile(filepath.Join(dir, refFileName(lang)), data, 0o644); err != nil {
			return err
		}
		sum := sha256.Sum256(data)
		if err := os.WriteFile(filepath.Join(dir, refFileName(lang)+".sha256"), []byte(hex.EncodeToString(sum[:])+"\n"), 0o644); err != nil {
			return err
		}
	}
	return nil
}
