package main

// Loop clauses for loops that have none.
//
// A loop of a function under contract needs an invariant, and the contract
// file gives it. Code that is NOT under contract can still contain loops: a
// deferred closure that wipes a buffer, a small helper that copies or
// compares bytes. Such code is executed where it is called (inlined), and for
// its loops the clauses are guessed from the shape of the loop:
//
//	invariant  every counter (an int variable whose only updates inside
//	           the loop are `v = v + c` with one sign of c) never moves
//	           against its direction: v >= v@entry (or <=)
//	assigns    the byte / string arrays behind the slices that are stored to
//	           through an index, when the slice value cannot change inside
//	           the loop; anything else that may write (a call, append, copy,
//	           a map update) makes the whole heap map unknown after the loop
//	decreases  from an exit test `counter <op> bound` with a bound that cannot
//	           change inside the loop: bound - counter (or counter - bound)
//
// Nothing here is trusted: the guessed clauses are proved like written ones
// (inv-preserved, loop-frame, variant obligations). A wrong or too weak guess
// fails an obligation; it cannot make a wrong program verify.

import (
	"go/token"
	"go/types"

	"golang.org/x/tools/go/ssa"
)

type counterInfo struct {
	cell *ssa.Alloc
	up   bool
}

type idxStore struct {
	base ssa.Value // the slice operand of the IndexAddr
}

type inferredLoop struct {
	counters []counterInfo
	// exit test
	vCounter *ssa.Alloc
	vUp      bool
	vBound   ssa.Value
	vStrict  bool // the loop continues while counter < bound (not <=)
	unitStep map[*ssa.Alloc]bool
	stores   []idxStore
	writeAll map[string]bool
}

func isLoadOf(v ssa.Value, a *ssa.Alloc) bool {
	u, ok := v.(*ssa.UnOp)
	return ok && u.Op == token.MUL && u.X == ssa.Value(a)
}

func constInt(v ssa.Value) (int64, bool) {
	c, ok := v.(*ssa.Const)
	if !ok || c.Value == nil {
		return 0, false
	}
	if b, ok := c.Type().Underlying().(*types.Basic); !ok || b.Info()&types.IsInteger == 0 {
		return 0, false
	}
	return c.Int64(), true
}

func stripConv(v ssa.Value) ssa.Value {
	for {
		c, ok := v.(*ssa.Convert)
		if !ok {
			return v
		}
		v = c.X
	}
}

// counterExpr: v is `load a` or `load a +/- const` for some alloc a.
func counterExpr(v ssa.Value) *ssa.Alloc {
	v = stripConv(v)
	if u, ok := v.(*ssa.UnOp); ok && u.Op == token.MUL {
		if a, ok := u.X.(*ssa.Alloc); ok {
			return a
		}
	}
	if b, ok := v.(*ssa.BinOp); ok && (b.Op == token.ADD || b.Op == token.SUB) {
		if _, isC := constInt(b.Y); isC {
			return counterExpr(b.X)
		}
	}
	return nil
}

func (ex *Exec) inferLoop(li *loopInfo) *inferredLoop {
	if li.inferred != nil {
		return li.inferred
	}
	inf := &inferredLoop{writeAll: map[string]bool{}, unitStep: map[*ssa.Alloc]bool{}}
	nStores := map[*ssa.Alloc]int{}
	li.inferred = inf
	stored := map[*ssa.Alloc]bool{}
	for _, a := range li.stored {
		stored[a] = true
	}
	declaredInside := map[*ssa.Alloc]bool{}
	type dir struct{ up, down, other bool }
	dirs := map[*ssa.Alloc]*dir{}
	for b := range li.blocks {
		for _, in := range b.Instrs {
			switch v := in.(type) {
			case *ssa.Alloc:
				declaredInside[v] = true
			case *ssa.Store:
				switch a := v.Addr.(type) {
				case *ssa.Alloc:
					d := dirs[a]
					if d == nil {
						d = &dir{}
						dirs[a] = d
					}
					bo, ok := v.Val.(*ssa.BinOp)
					k, isC := int64(0), false
					if ok {
						k, isC = constInt(bo.Y)
					}
					nStores[a]++
					if ok && isC && k == 1 && nStores[a] == 1 {
						inf.unitStep[a] = true
					} else {
						inf.unitStep[a] = false
					}
					switch {
					case ok && isC && k > 0 && isLoadOf(bo.X, a) && bo.Op == token.ADD:
						d.up = true
					case ok && isC && k > 0 && isLoadOf(bo.X, a) && bo.Op == token.SUB:
						d.down = true
					default:
						d.other = true
					}
				case *ssa.IndexAddr:
					inf.stores = append(inf.stores, idxStore{base: a.X})
				case *ssa.Global, *ssa.FreeVar:
					// cells, not heap
				default:
					for _, h := range []string{"BMem", "SMem", "BigVal"} {
						inf.writeAll[h] = true
					}
				}
			case *ssa.MapUpdate:
				inf.writeAll["MDom"], inf.writeAll["MVal"] = true, true
			case *ssa.Call:
				if _, isB := v.Call.Value.(*ssa.Builtin); isB {
					n := v.Call.Value.(*ssa.Builtin).Name()
					if n == "append" || n == "copy" {
						inf.writeAll["BMem"], inf.writeAll["SMem"] = true, true
					}
					continue
				}
				t := map[string]bool{}
				ex.p.touchInstr(in, t, map[*ssa.Global]bool{})
				for h := range t {
					if h != "next" {
						inf.writeAll[h] = true
					}
				}
			case *ssa.Defer, *ssa.Go:
				for _, h := range heapMaps {
					inf.writeAll[h] = true
				}
			}
		}
	}
	onlyLoadStore := func(a *ssa.Alloc) bool {
		if a.Referrers() == nil {
			return false
		}
		for _, r := range *a.Referrers() {
			switch x := r.(type) {
			case *ssa.UnOp:
			case *ssa.Store:
				if x.Addr != ssa.Value(a) {
					return false
				}
			case *ssa.DebugRef:
			default:
				return false
			}
		}
		return true
	}
	for _, a := range li.stored {
		d := dirs[a]
		if d == nil || d.other || d.up == d.down || declaredInside[a] || !onlyLoadStore(a) {
			continue
		}
		if b, ok := a.Type().(*types.Pointer).Elem().Underlying().(*types.Basic); !ok || b.Info()&types.IsInteger == 0 {
			continue
		}
		inf.counters = append(inf.counters, counterInfo{a, d.up})
	}
	isCounter := func(a *ssa.Alloc) (bool, bool) {
		for _, c := range inf.counters {
			if c.cell == a {
				return true, c.up
			}
		}
		return false, false
	}
	// exit test: an If inside the loop with a successor outside
	var hdrs []*ssa.BasicBlock
	for b := range li.blocks {
		hdrs = append(hdrs, b)
	}
	sortBlocks(hdrs)
	for _, b := range hdrs {
		if len(b.Instrs) == 0 {
			continue
		}
		iff, ok := b.Instrs[len(b.Instrs)-1].(*ssa.If)
		if !ok || (li.blocks[b.Succs[0]] && li.blocks[b.Succs[1]]) {
			continue
		}
		cond, ok := iff.Cond.(*ssa.BinOp)
		if !ok {
			continue
		}
		stay := li.blocks[b.Succs[0]] // the loop continues when cond is true
		try := func(x, y ssa.Value, op token.Token) bool {
			a := counterExpr(x)
			if a == nil {
				return false
			}
			isC, up := isCounter(a)
			if !isC {
				return false
			}
			// normalise to the condition under which the loop CONTINUES
			if !stay {
				switch op {
				case token.LSS:
					op = token.GEQ
				case token.LEQ:
					op = token.GTR
				case token.GTR:
					op = token.LEQ
				case token.GEQ:
					op = token.LSS
				default:
					return false
				}
			}
			if up && (op == token.LSS || op == token.LEQ) || !up && (op == token.GTR || op == token.GEQ) {
				inf.vCounter, inf.vUp, inf.vBound = a, up, y
				inf.vStrict = op == token.LSS || op == token.GTR
				return true
			}
			return false
		}
		flip := map[token.Token]token.Token{token.LSS: token.GTR, token.LEQ: token.GEQ, token.GTR: token.LSS, token.GEQ: token.LEQ}
		if try(cond.X, cond.Y, cond.Op) {
			break
		}
		if f, ok := flip[cond.Op]; ok && try(cond.Y, cond.X, f) {
			break
		}
	}
	return inf
}

func sortBlocks(bs []*ssa.BasicBlock) {
	for i := 1; i < len(bs); i++ {
		for j := i; j > 0 && bs[j].Index < bs[j-1].Index; j-- {
			bs[j], bs[j-1] = bs[j-1], bs[j]
		}
	}
}

// loopStoredCells: the local cells the loop may store to, including cells of an
// enclosing function reached through captured variables.
func (ex *Exec) loopStoredCells(st *State, li *loopInfo) map[*ssa.Alloc]bool {
	m := map[*ssa.Alloc]bool{}
	for _, a := range li.stored {
		m[a] = true
	}
	for _, fv := range li.storedFV {
		if sv, ok := st.vals[fv]; ok && sv.K == KPtr && sv.Ptr.Kind == PCell {
			m[sv.Ptr.Cell] = true
		}
	}
	return m
}

// invariantValue evaluates v in state st if v cannot change inside the loop.
func (ex *Exec) invariantValue(st *State, li *loopInfo, v ssa.Value, depth int) (SV, bool) {
	if depth > 6 {
		return SV{}, false
	}
	switch x := v.(type) {
	case *ssa.Const:
		return ex.constVal(st, x), true
	case *ssa.Parameter:
		sv, ok := st.vals[x]
		return sv, ok
	case *ssa.Convert:
		sv, ok := ex.invariantValue(st, li, x.X, depth+1)
		if !ok || sv.K != KScalar || sv.T.Sort != SInt {
			return SV{}, false
		}
		if b, isB := x.Type().Underlying().(*types.Basic); !isB || b.Info()&types.IsInteger == 0 {
			return SV{}, false
		}
		return sv, true
	}
	in, isInstr := v.(ssa.Instruction)
	if isInstr && in.Block() != nil && in.Parent() == li.header.Parent() && !li.blocks[in.Block()] {
		sv, ok := st.vals[v]
		return sv, ok
	}
	switch x := v.(type) {
	case *ssa.UnOp:
		if x.Op != token.MUL {
			return SV{}, false
		}
		var cell *ssa.Alloc
		switch p := x.X.(type) {
		case *ssa.Alloc:
			cell = p
		case *ssa.FreeVar:
			if sv, ok := st.vals[p]; ok && sv.K == KPtr && sv.Ptr.Kind == PCell {
				cell = sv.Ptr.Cell
			}
		}
		if cell == nil || ex.loopStoredCells(st, li)[cell] {
			return SV{}, false
		}
		sv, ok := st.cells[cell]
		return sv, ok
	case *ssa.Call:
		if b, ok := x.Call.Value.(*ssa.Builtin); ok && (b.Name() == "len" || b.Name() == "cap") && len(x.Call.Args) == 1 {
			sv, ok := ex.invariantValue(st, li, x.Call.Args[0], depth+1)
			if !ok || sv.K != KSlice {
				return SV{}, false
			}
			if b.Name() == "len" {
				return Scalar(sv.Len), true
			}
			return Scalar(sv.Cap), true
		}
	case *ssa.BinOp:
		if x.Op != token.ADD && x.Op != token.SUB {
			return SV{}, false
		}
		a, ok1 := ex.invariantValue(st, li, x.X, depth+1)
		b, ok2 := ex.invariantValue(st, li, x.Y, depth+1)
		if !ok1 || !ok2 || a.K != KScalar || b.K != KScalar || a.T.Sort != SInt || b.T.Sort != SInt {
			return SV{}, false
		}
		if x.Op == token.ADD {
			return Scalar(Add(a.T, b.T)), true
		}
		return Scalar(Sub(a.T, b.T)), true
	}
	return SV{}, false
}

// inferredAssigns: the write set of the loop, evaluated in the state before it.
func (ex *Exec) inferredAssigns(pre *State, li *loopInfo, inf *inferredLoop) *assignSet {
	as := &assignSet{refs: map[string][]Term{}, globals: map[string]bool{}, all: map[string]bool{}}
	if ex.entry != nil {
		as.entryBound = ex.entry.next
	}
	for h := range inf.writeAll {
		as.all[h] = true
	}
	for g := range li.globals {
		as.globals[g.Name()] = true
	}
	for _, s := range inf.stores {
		sv, ok := ex.invariantValue(pre, li, s.base, 0)
		if !ok || sv.K != KSlice || sv.Cell != nil {
			as.all["BMem"], as.all["SMem"] = true, true
			continue
		}
		switch sv.Elem {
		case "byte":
			as.refs["BMem"] = append(as.refs["BMem"], sv.Ref)
		case "string":
			as.refs["SMem"] = append(as.refs["SMem"], sv.Ref)
		default:
			as.all["BMem"], as.all["SMem"] = true, true
		}
	}
	return as
}

// inferredVariant: bound - counter (or counter - bound) in state st.
func (ex *Exec) inferredVariant(st *State, li *loopInfo, inf *inferredLoop) (Term, bool) {
	if inf.vCounter == nil {
		return Term{}, false
	}
	c, ok := st.cells[inf.vCounter]
	if !ok || c.K != KScalar {
		return Term{}, false
	}
	b, ok := ex.invariantValue(st, li, inf.vBound, 0)
	if !ok || b.K != KScalar || b.T.Sort != SInt {
		return Term{}, false
	}
	if inf.vUp {
		return Sub(b.T, c.T), true
	}
	return Sub(c.T, b.T), true
}

// inferredInvariants: counter monotonicity relative to the state before the
// loop, and for a unit-step counter with an exit test against a fixed bound:
// the counter never passes max(initial, bound) (min for a down counter).
func (ex *Exec) inferredInvariants(st, pre *State, li *loopInfo, inf *inferredLoop) []Term {
	var out []Term
	if c := inf.vCounter; c != nil && inf.unitStep[c] {
		now, ok1 := st.cells[c]
		was, ok2 := pre.cells[c]
		b, ok3 := ex.invariantValue(pre, li, inf.vBound, 0)
		if ok1 && ok2 && ok3 && now.K == KScalar && was.K == KScalar && b.K == KScalar && b.T.Sort == SInt {
			lim := b.T
			switch {
			case inf.vUp && !inf.vStrict:
				lim = Add(lim, IntLit(1))
			case !inf.vUp && !inf.vStrict:
				lim = Sub(lim, IntLit(1))
			}
			if inf.vUp {
				out = append(out, Le(now.T, Ite(Ge(was.T, lim), was.T, lim)))
			} else {
				out = append(out, Ge(now.T, Ite(Le(was.T, lim), was.T, lim)))
			}
		}
	}
	for _, c := range inf.counters {
		now, ok1 := st.cells[c.cell]
		was, ok2 := pre.cells[c.cell]
		if !ok1 || !ok2 || now.K != KScalar || was.K != KScalar {
			continue
		}
		if c.up {
			out = append(out, Ge(now.T, was.T))
		} else {
			out = append(out, Le(now.T, was.T))
		}
	}
	return out
}
