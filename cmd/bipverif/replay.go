package main

// From a failed obligation to a concrete failing input: model -> hints ->
// in-package test injected with `go test -overlay` running the real code.

import (
	"bytes"
	"context"
	"encoding/json"
	"fmt"
	"go/constant"
	"golang.org/x/tools/go/ssa"
	"os"
	"os/exec"
	"path/filepath"
	"strings"
	"time"
)

type replayResult struct {
	Found bool
	Path  string
}

type replayFile struct {
	Property     string                   `json:"property"`
	Obligation   string                   `json:"obligation"`
	Instances    []map[string]interface{} `json:"failed_instances"`
	Hints        map[string]string        `json:"model_hints"`
	ReplayCmd    string                   `json:"replay_cmd"`
	Result       map[string]interface{}   `json:"replay_result"`
	FailingInput bool                     `json:"failing_input_found"`
	Note         string                   `json:"note,omitempty"`
	Tree         string                   `json:"tree"`
}

func modelHints(o *Obligation) map[string]string {
	h := map[string]string{}
	m, _ := o.model()
	if m == nil {
		return h
	}
	norm := func(s string) string { return strings.Join(strings.Fields(s), " ") }
	idx := map[string]string{}
	for k, v := range m {
		idx[norm(k)] = v
	}
	for _, w := range o.Watch {
		if v, ok := idx[norm(w.t.S)]; ok {
			if n, ok := modelInt(v); ok {
				h[w.name] = n.String()
			} else if v == "true" || v == "false" {
				h[w.name] = v
			}
		}
	}
	return h
}

// replayProperty maps a property to the oracle family of the harness.
func replayProperty(prop string, obls []*Obligation) string {
	return prop
}

func (p *Program) replay(prop string, obls []*Obligation, opts checkOpts, dir string) replayResult {
	base := baseName(obls[0].Name)
	path := filepath.Join(dir, fmt.Sprintf("%s-%s.json", prop, smtName(base)))
	rf := replayFile{Property: prop, Obligation: base, Hints: map[string]string{}, Tree: p.RepoDir}
	for _, o := range obls {
		inst := map[string]interface{}{"name": o.Name, "kind": o.Kind, "clause": o.Clause, "pos": o.Pos, "tags": o.Tags}
		if o.Failed {
			inst["generator"] = o.Reason
		} else {
			inst["solver_status"] = o.Result.Status
			inst["solver_runs"] = o.Result.AllRuns
			inst["solver_output"] = trunc(o.Result.Output, 2000)
			if m, how := o.model(); m != nil {
				inst["model_from"] = how
				hs := modelHints(o)
				inst["model_hints"] = hs
				if len(rf.Hints) == 0 {
					rf.Hints = hs
				}
			}
			inst["smt_file"] = filepath.Join(verifDir, "work", prop, smtName(o.Name)+".smt2")
		}
		rf.Instances = append(rf.Instances, inst)
		if len(rf.Instances) >= 8 {
			break
		}
	}
	for _, o := range obls {
		for k, v := range o.Hints {
			rf.Hints[k] = v
		}
		// a builder literal that also writes another language's variable: replay the ordered first use
		if k := strings.Index(o.Name, "$writes("); k >= 0 {
			rest := strings.ToLower(o.Name[k:])
			for i, n := range p.langNamesLower() {
				if strings.HasPrefix(rest, "$writes("+n+"mapping") {
					rf.Hints["hist.second"] = fmt.Sprint(i)
				} else if strings.Contains(rest, "/"+n+"mapping") {
					rf.Hints["hist.first"] = fmt.Sprint(i)
				}
			}
		}
		// a discipline obligation about a <language>Mapping variable: stress that language
		for i, n := range p.langNamesLower() {
			if strings.Contains(strings.ToLower(o.Name), "/"+n+"mapping") {
				rf.Hints["race.lang"] = fmt.Sprint(i)
			}
		}
	}
	// ground obligations carry their witness directly: language and index go to the harness as hints
	for _, o := range obls {
		if o.Kind == "ground" && o.Failed {
			rf.Note = "ground fact fails: " + o.Reason
			parts := strings.Split(o.Name, "/")
			if len(parts) >= 3 {
				if h, ok := p.groundHints[parts[1]]; ok {
					rf.Hints["ground.lang"] = parts[1]
					for _, k := range []string{"unstable_i", "diff_i", "dup_i", "dup_j", "bad_i"} {
						if v, ok := h[k]; ok {
							rf.Hints["ground.index"] = v
							break
						}
					}
				}
			}
		}
	}
	if prop == "C07" {
		for i, n := range p.envNames() {
			rf.Hints[fmt.Sprintf("env.%d", i)] = n
		}
	}
	res, cmdline, note := p.runHarness(prop, base, rf.Hints, opts)
	for _, o := range obls {
		if o.Kind == "bounded" && o.Failed && p.bounded != nil && p.bounded.FailInput != "" {
			// the bounded run of the real tool carries its own failing input
			res = map[string]interface{}{"found": true, "input": map[string]string{"target": p.bounded.FailTarget, "upstream_file": p.bounded.FailInput}, "observed": p.bounded.Failure, "expected": "generated list == non-empty input lines"}
			cmdline = "bipverif check C17 (bounded run of update-wordlist built with -tags verif against a local server)"
			note = ""
		}
	}
	rf.ReplayCmd = cmdline
	rf.Result = res
	if note != "" {
		rf.Note = strings.TrimSpace(rf.Note + " " + note)
	}
	if f, ok := res["found"].(bool); ok && f {
		rf.FailingInput = true
	}
	data, _ := json.MarshalIndent(rf, "", " ")
	_ = os.WriteFile(path, append(data, '\n'), 0o644)
	return replayResult{Found: rf.FailingInput, Path: path}
}

// runHarness injects the replay test into the tree under test via -overlay.
func (p *Program) runHarness(prop, obligation string, hints map[string]string, opts checkOpts) (map[string]interface{}, string, string) {
	if prop == "C17" {
		return map[string]interface{}{}, "", "tool property: see bounded run"
	}
	tmp, err := os.MkdirTemp("", "bipverif-replay-")
	if err != nil {
		return map[string]interface{}{}, "", err.Error()
	}
	defer os.RemoveAll(tmp)
	src, err := os.ReadFile(filepath.Join(verifDir, "replay", "replay_test.go.txt"))
	if err != nil {
		return map[string]interface{}{}, "", err.Error()
	}
	testFile := filepath.Join(tmp, "zz_verif_replay_test.go")
	_ = os.WriteFile(testFile, src, 0o644)
	ov := map[string]map[string]string{"Replace": {filepath.Join(p.RepoDir, "zz_verif_replay_test.go"): testFile}}
	ovData, _ := json.Marshal(ov)
	ovFile := filepath.Join(tmp, "overlay.json")
	_ = os.WriteFile(ovFile, ovData, 0o644)
	out := filepath.Join(tmp, "result.json")
	req := map[string]interface{}{"property": prop, "obligation": obligation, "hints": hints, "seed": opts.seed,
		"ref_dir": filepath.Join(verifDir, "ref", "wordlists"), "budget": 4096, "out": out}
	reqData, _ := json.Marshal(req)
	reqFile := filepath.Join(tmp, "request.json")
	_ = os.WriteFile(reqFile, reqData, 0o644)
	args := []string{"test", "-overlay", ovFile, "-vet=off", "-count=1", "-timeout", "120s", "-run", "^TestVerifReplay$"}
	if prop == "C12" {
		args = append(args, "-race")
	}
	args = append(args, ".")
	ctx, cancel := context.WithTimeout(context.Background(), 180*time.Second)
	defer cancel()
	cmd := exec.CommandContext(ctx, "go", args...)
	cmd.Dir = p.RepoDir
	cmd.Env = append(os.Environ(), "GOFLAGS=-mod=mod", "GOPROXY=off", "GOSUMDB=off", "GOTOOLCHAIN=local", "VERIF_REPLAY_REQ="+reqFile)
	var buf bytes.Buffer
	cmd.Stdout, cmd.Stderr = &buf, &buf
	runErr := cmd.Run()
	cmdline := "cd " + p.RepoDir + " && VERIF_REPLAY_REQ=<request> go " + strings.Join(args, " ")
	res := map[string]interface{}{}
	if data, err := os.ReadFile(out); err == nil {
		_ = json.Unmarshal(data, &res)
	}
	note := ""
	if len(res) == 0 && strings.Contains(buf.String(), "fatal error: concurrent map") {
		// the Go runtime aborted the process: an unsynchronised map access in the library, hit by
		// the concurrent phase of the oracle (the harness itself shares no map between goroutines)
		res["found"] = true
		res["observed"] = "the runtime aborted the test process: " + trunc(buf.String()[strings.Index(buf.String(), "fatal error: concurrent map"):], 1500)
		res["expected"] = "concurrent calls of the exported functions return normally"
		res["input"] = map[string]string{"schedule": "the concurrent phase of the " + prop + " oracle (goroutines calling the exported functions on their own inputs)"}
	} else if len(res) == 0 {
		note = "replay harness produced no result: " + trunc(buf.String(), 1500)
		if prop == "C12" && strings.Contains(buf.String(), "DATA RACE") {
			res["found"] = true
			res["observed"] = "DATA RACE reported by the race detector: " + trunc(buf.String(), 3000)
			res["expected"] = "no data race"
			note = ""
		}
	} else if prop == "C12" && strings.Contains(buf.String(), "DATA RACE") {
		res["found"] = true
		res["observed"] = "DATA RACE reported by the race detector: " + trunc(buf.String(), 3000)
		res["expected"] = "no data race"
	}
	_ = runErr
	return res, cmdline, note
}

func (p *Program) langNamesLower() []string {
	var out []string
	if p.Lang == nil {
		return out
	}
	for _, n := range p.Lang.Names {
		out = append(out, strings.ToLower(n))
	}
	return out
}

// envNames: environment variables the library reads (constant first argument
// of os.Getenv / os.LookupEnv anywhere in the package), for the C07 replay.
func (p *Program) envNames() []string {
	seen := map[string]bool{}
	var out []string
	if p.Main == nil {
		return out
	}
	fns := []*ssa.Function{}
	for _, f := range p.allFunctions() {
		fns = append(fns, f.fn)
	}
	if init := p.Main.Func("init"); init != nil {
		fns = append(fns, init)
		fns = append(fns, init.AnonFuncs...)
	}
	for _, fn := range fns {
		if fn.Pkg != p.Main {
			continue
		}
		for _, b := range fn.Blocks {
			for _, in := range b.Instrs {
				c, ok := in.(*ssa.Call)
				if !ok || c.Call.IsInvoke() {
					continue
				}
				callee, ok := c.Call.Value.(*ssa.Function)
				if !ok || len(c.Call.Args) == 0 {
					continue
				}
				switch callee.String() {
				case "os.Getenv", "os.LookupEnv", "syscall.Getenv":
					if k, ok := c.Call.Args[0].(*ssa.Const); ok && k.Value != nil && k.Value.Kind() == constant.String {
						n := constant.StringVal(k.Value)
						if n != "" && !seen[n] && len(out) < 8 {
							seen[n] = true
							out = append(out, n)
						}
					}
				}
			}
		}
	}
	return out
}
