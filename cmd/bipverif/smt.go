package main

// SMT term construction, solver portfolio.

import (
	"bytes"
	"context"
	"fmt"
	"math/big"
	"os"
	"os/exec"
	"path/filepath"
	"strings"
	"sync"
	"time"
)

// Sort names (SMT-LIB text).
const (
	SInt   = "Int"
	SBool  = "Bool"
	SStr   = "Str"
	SBytes = "Bytes"
	SSeq   = "SSeq"
	SErr   = "Err"
	SAny   = "Any"
	SAIS   = "(Array Int Str)"
	SAII   = "(Array Int Int)"
	SAIA   = "(Array Int Any)"
	SASB   = "(Array Str Bool)"
	SASI   = "(Array Str Int)"
	SAIB   = "(Array Int Bytes)"
	SAIAIS = "(Array Int (Array Int Str))"
	SAIAIA = "(Array Int (Array Int Any))"
	SAIASB = "(Array Int (Array Str Bool))"
	SAIASI = "(Array Int (Array Str Int))"
	SAIBo  = "(Array Int Bool)"
)

// Term is an SMT-LIB expression with its sort.
type Term struct {
	S    string
	Sort string
}

func (t Term) String() string { return t.S }

func T(sort, s string) Term { return Term{S: s, Sort: sort} }

func App(sort, op string, args ...Term) Term {
	var b strings.Builder
	b.WriteByte('(')
	b.WriteString(op)
	for _, a := range args {
		b.WriteByte(' ')
		b.WriteString(a.S)
	}
	b.WriteByte(')')
	return Term{S: b.String(), Sort: sort}
}

func IntLit(n int64) Term {
	if n < 0 {
		return T(SInt, fmt.Sprintf("(- %d)", -n)) // cvc5 wants (- n); MinInt64 handled by BigLit
	}
	return T(SInt, fmt.Sprintf("%d", n))
}

func BigLit(n *big.Int) Term {
	if n.Sign() < 0 {
		return T(SInt, "(- "+new(big.Int).Neg(n).String()+")")
	}
	return T(SInt, n.String())
}

func Pow2Lit(k int) Term { return BigLit(new(big.Int).Lsh(big.NewInt(1), uint(k))) }

var (
	TTrue  = T(SBool, "true")
	TFalse = T(SBool, "false")
)

func BoolLit(b bool) Term {
	if b {
		return TTrue
	}
	return TFalse
}

func And(ts ...Term) Term {
	var xs []Term
	for _, t := range ts {
		if t.S == "true" {
			continue
		}
		if t.S == "false" {
			return TFalse
		}
		xs = append(xs, t)
	}
	switch len(xs) {
	case 0:
		return TTrue
	case 1:
		return xs[0]
	}
	return App(SBool, "and", xs...)
}

func Or(ts ...Term) Term {
	var xs []Term
	for _, t := range ts {
		if t.S == "false" {
			continue
		}
		if t.S == "true" {
			return TTrue
		}
		xs = append(xs, t)
	}
	switch len(xs) {
	case 0:
		return TFalse
	case 1:
		return xs[0]
	}
	return App(SBool, "or", xs...)
}

func Not(t Term) Term {
	if t.S == "true" {
		return TFalse
	}
	if t.S == "false" {
		return TTrue
	}
	return App(SBool, "not", t)
}

func Implies(a, b Term) Term {
	if a.S == "true" {
		return b
	}
	if a.S == "false" || b.S == "true" {
		return TTrue
	}
	return App(SBool, "=>", a, b)
}
func Eq(a, b Term) Term {
	if a.S == b.S {
		return TTrue
	}
	return App(SBool, "=", a, b)
}
func Ite(c, a, b Term) Term {
	if c.S == "true" {
		return a
	}
	if c.S == "false" {
		return b
	}
	return App(a.Sort, "ite", c, a, b)
}
func Add(a, b Term) Term {
	if a.S == "0" {
		return b
	}
	if b.S == "0" {
		return a
	}
	return App(SInt, "+", a, b)
}
func Sub(a, b Term) Term {
	if b.S == "0" {
		return a
	}
	return App(SInt, "-", a, b)
}
func Mul(a, b Term) Term { return App(SInt, "*", a, b) }
func Lt(a, b Term) Term  { return App(SBool, "<", a, b) }
func Le(a, b Term) Term  { return App(SBool, "<=", a, b) }
func Ge(a, b Term) Term  { return App(SBool, ">=", a, b) }
func Gt(a, b Term) Term  { return App(SBool, ">", a, b) }

func elemSortOfArray(s string) string {
	// "(Array K V)" -> V
	s = strings.TrimPrefix(s, "(Array ")
	s = strings.TrimSuffix(s, ")")
	// K is a single token (Int or Str)
	i := strings.IndexByte(s, ' ')
	return s[i+1:]
}
func Select(a, i Term) Term { return App(elemSortOfArray(a.Sort), "select", a, i) }
func Store(a, i, v Term) Term {
	return App(a.Sort, "store", a, i, v)
}

func Forall(vars []Term, body Term, patterns ...Term) Term {
	if body.S == "true" {
		return TTrue
	}
	var b strings.Builder
	b.WriteString("(forall (")
	for _, v := range vars {
		fmt.Fprintf(&b, "(%s %s)", v.S, v.Sort)
	}
	b.WriteString(") ")
	if len(patterns) > 0 {
		b.WriteString("(! ")
		b.WriteString(body.S)
		for _, p := range patterns {
			b.WriteString(" :pattern (")
			b.WriteString(p.S)
			b.WriteString(")")
		}
		b.WriteString(")")
	} else {
		b.WriteString(body.S)
	}
	b.WriteString(")")
	return T(SBool, b.String())
}
func Exists(vars []Term, body Term) Term {
	var b strings.Builder
	b.WriteString("(exists (")
	for _, v := range vars {
		fmt.Fprintf(&b, "(%s %s)", v.S, v.Sort)
	}
	b.WriteString(") ")
	b.WriteString(body.S)
	b.WriteString(")")
	return T(SBool, b.String())
}

// ---------------------------------------------------------------------------
// Solver portfolio

type SolverResult struct {
	Status  string // unsat | sat | unknown | timeout | error
	Solver  string
	TimeS   float64
	Output  string // raw (truncated)
	Model   map[string]string
	AllRuns []SolverRun
}

type SolverRun struct {
	Solver string  `json:"solver"`
	Status string  `json:"status"`
	TimeS  float64 `json:"time_s"`
}

type solverSpec struct {
	name string
	argv func(file string, timeoutS int) []string
}

var solverSpecs = []solverSpec{
	{"z3-4.8.12", func(f string, t int) []string { return []string{"/usr/bin/z3", fmt.Sprintf("-T:%d", t), f} }},
	{"z3-5.1.0", func(f string, t int) []string { return []string{"z3-new", fmt.Sprintf("-T:%d", t), f} }},
	{"cvc5-1.0.3", func(f string, t int) []string {
		return []string{"cvc5", "--strings-exp", fmt.Sprintf("--tlimit=%d", t*1000), f}
	}},
}

var solverSem = make(chan struct{}, 16)

func runOne(ctx context.Context, sp solverSpec, file string, timeoutS int) (status, out string, dt float64) {
	solverSem <- struct{}{}
	defer func() { <-solverSem }()
	if ctx.Err() != nil {
		return "cancelled", "", 0
	}
	argv := sp.argv(file, timeoutS)
	cctx, cancel := context.WithTimeout(ctx, time.Duration(timeoutS+2)*time.Second)
	defer cancel()
	cmd := exec.CommandContext(cctx, argv[0], argv[1:]...)
	var buf bytes.Buffer
	cmd.Stdout = &buf
	cmd.Stderr = &buf
	t0 := time.Now()
	_ = cmd.Run()
	dt = time.Since(t0).Seconds()
	out = buf.String()
	first := strings.TrimSpace(strings.SplitN(out, "\n", 2)[0])
	switch {
	case first == "unsat" || first == "sat" || first == "unknown":
		status = first
	case ctx.Err() != nil:
		status = "cancelled"
	case strings.Contains(first, "timeout") || cctx.Err() != nil || strings.Contains(out, "interrupted by timeout"):
		status = "timeout"
	default:
		status = "error"
	}
	return
}

// Solve races the portfolio on the script; with all=true every solver runs to
// completion (thorough tier, cross-check).
func Solve(script string, file string, timeoutS int, all bool, noCVC5 bool) SolverResult {
	_ = os.MkdirAll(filepath.Dir(file), 0o755)
	// cvc5 wants produce-models before set-logic: the script already has that order.
	if err := os.WriteFile(file, []byte(script), 0o644); err != nil {
		return SolverResult{Status: "error", Output: err.Error()}
	}
	ctx, cancel := context.WithCancel(context.Background())
	defer cancel()
	type r struct {
		sp    solverSpec
		st, o string
		dt    float64
	}
	var specs []solverSpec
	for _, sp := range solverSpecs {
		if noCVC5 && strings.HasPrefix(sp.name, "cvc5") {
			continue
		}
		specs = append(specs, sp)
	}
	ch := make(chan r, len(specs))
	var wg sync.WaitGroup
	for _, sp := range specs {
		wg.Add(1)
		go func(sp solverSpec) {
			defer wg.Done()
			st, o, dt := runOne(ctx, sp, file, timeoutS)
			ch <- r{sp, st, o, dt}
		}(sp)
	}
	go func() { wg.Wait(); close(ch) }()
	res := SolverResult{Status: "unknown"}
	decided := false
	var errOut string
	for x := range ch {
		if x.st != "cancelled" {
			res.AllRuns = append(res.AllRuns, SolverRun{x.sp.name, x.st, x.dt})
		}
		if x.st == "error" && errOut == "" {
			errOut = x.sp.name + ": " + trunc(x.o, 600)
		}
		if x.st == "unsat" || x.st == "sat" {
			if decided && res.Status != x.st {
				res.Status = "disagree"
				res.Output += "\nDISAGREEMENT: " + x.sp.name + " says " + x.st
				continue
			}
			if !decided {
				decided = true
				res.Status = x.st
				res.Solver = x.sp.name
				res.TimeS = x.dt
				res.Output = trunc(x.o, 20000)
				if x.st == "sat" {
					res.Model = parseGetValue(x.o)
				}
				if !all {
					cancel()
				}
			}
		}
	}
	if !decided {
		nT, nU, nE := 0, 0, 0
		for _, rr := range res.AllRuns {
			switch rr.Status {
			case "timeout":
				nT++
			case "unknown":
				nU++
			case "error":
				nE++
			}
		}
		switch {
		case nU > 0:
			res.Status = "unknown"
		case nT > 0:
			res.Status = "timeout"
		case nE > 0:
			res.Status = "error"
		}
		res.Output = errOut
		for _, rr := range res.AllRuns {
			if rr.TimeS > res.TimeS {
				res.TimeS = rr.TimeS
			}
		}
	}
	return res
}

func trunc(s string, n int) string {
	if len(s) > n {
		return s[:n] + "...[truncated]"
	}
	return s
}

// parseGetValue parses the "((name value) ...)" answer of (get-value ...).
func parseGetValue(out string) map[string]string {
	m := map[string]string{}
	i := strings.Index(out, "\n")
	if i < 0 {
		return m
	}
	s := out[i+1:]
	// tokenise s-expressions: the answer is a list of pairs.
	toks := sexpTokens(s)
	pos := 0
	var parse func() interface{}
	parse = func() interface{} {
		if pos >= len(toks) {
			return nil
		}
		t := toks[pos]
		pos++
		if t == "(" {
			var l []interface{}
			for pos < len(toks) && toks[pos] != ")" {
				l = append(l, parse())
			}
			pos++
			return l
		}
		return t
	}
	for pos < len(toks) {
		top := parse()
		l, ok := top.([]interface{})
		if !ok {
			continue
		}
		for _, p := range l {
			pl, ok := p.([]interface{})
			if !ok || len(pl) != 2 {
				continue
			}
			m[sexpString(pl[0])] = sexpString(pl[1])
		}
	}
	return m
}

func sexpTokens(s string) []string {
	var toks []string
	i := 0
	for i < len(s) {
		c := s[i]
		switch {
		case c == '(' || c == ')':
			toks = append(toks, string(c))
			i++
		case c == ' ' || c == '\n' || c == '\t' || c == '\r':
			i++
		case c == '"':
			j := i + 1
			for j < len(s) {
				if s[j] == '"' {
					if j+1 < len(s) && s[j+1] == '"' {
						j += 2
						continue
					}
					break
				}
				j++
			}
			toks = append(toks, s[i:min(j+1, len(s))])
			i = j + 1
		case c == '|':
			j := strings.IndexByte(s[i+1:], '|')
			if j < 0 {
				j = len(s) - i - 2
			}
			toks = append(toks, s[i:i+j+2])
			i += j + 2
		default:
			j := i
			for j < len(s) && !strings.ContainsRune("() \n\t\r", rune(s[j])) {
				j++
			}
			toks = append(toks, s[i:j])
			i = j
		}
	}
	return toks
}

func sexpString(x interface{}) string {
	switch v := x.(type) {
	case string:
		return v
	case []interface{}:
		parts := make([]string, len(v))
		for i, e := range v {
			parts[i] = sexpString(e)
		}
		return "(" + strings.Join(parts, " ") + ")"
	}
	return ""
}

// modelInt interprets a model value as an integer if possible.
func modelInt(v string) (*big.Int, bool) {
	v = strings.TrimSpace(v)
	neg := false
	if strings.HasPrefix(v, "(-") && strings.HasSuffix(v, ")") {
		neg = true
		v = strings.TrimSpace(v[2 : len(v)-1])
	}
	n, ok := new(big.Int).SetString(v, 10)
	if !ok {
		return nil, false
	}
	if neg {
		n.Neg(n)
	}
	return n, true
}
