package main

// Assumed contracts of dependency functions (never proved; listed in the
// evidence of every check that used them).

import (
	"fmt"
	"go/constant"
	"go/types"
	"sort"
	"strings"

	"golang.org/x/tools/go/ssa"
)

type depHandler struct {
	touch []string
	doc   string
	fn    func(ex *Exec, st *State, c *ssa.Call, a []SV) SV
}

var deps = map[string]*depHandler{}

func regDep(name string, touch []string, doc string, fn func(ex *Exec, st *State, c *ssa.Call, a []SV) SV) {
	deps[name] = &depHandler{touch, doc, fn}
}

func bigVal(st *State, r Term) Term { return Select(st.heap["BigVal"], r) }

func (ex *Exec) setBig(st *State, r Term, v Term) {
	st.heap["BigVal"] = ex.define(st, "BigVal", Store(st.heap["BigVal"], r, v))
}

func (ex *Exec) notNil(st *State, r Term, c *ssa.Call, what string) {
	ex.safety(st, "nil", Not(Eq(r, IntLit(0))), c, "nil "+what)
}

func bigBin(doc string, f func(ex *Exec, st *State, c *ssa.Call, x, y Term) Term) *depHandler {
	return &depHandler{[]string{"BigVal"}, doc, func(ex *Exec, st *State, c *ssa.Call, a []SV) SV {
		z, x, y := a[0].T, a[1].T, a[2].T
		ex.notNil(st, z, c, "*big.Int receiver")
		ex.notNil(st, x, c, "*big.Int operand")
		ex.notNil(st, y, c, "*big.Int operand")
		v := f(ex, st, c, bigVal(st, x), bigVal(st, y))
		v = ex.define(st, "big", v)
		ex.setBig(st, z, v)
		return Scalar(z)
	}}
}

func init() {
	const B = "(*math/big.Int)."
	regDep("math/big.NewInt", []string{"BigVal", "next"}, "big.NewInt(x): fresh *big.Int with value x", func(ex *Exec, st *State, c *ssa.Call, a []SV) SV {
		r := ex.allocRef(st)
		ex.setBig(st, r, a[0].T)
		if ex.isInit && isNumeral(r.S) && isNumeral(a[0].T.S) {
			ex.p.initBig[r.S] = a[0].T.S
		}
		return Scalar(r)
	})
	deps[B+"Add"] = bigBin("z.Add(x,y): val(z)=val(x)+val(y); returns z", func(ex *Exec, st *State, c *ssa.Call, x, y Term) Term { return Add(x, y) })
	deps[B+"Sub"] = bigBin("z.Sub(x,y): val(z)=val(x)-val(y); returns z", func(ex *Exec, st *State, c *ssa.Call, x, y Term) Term { return Sub(x, y) })
	deps[B+"Mul"] = bigBin("z.Mul(x,y): val(z)=val(x)*val(y); returns z", func(ex *Exec, st *State, c *ssa.Call, x, y Term) Term { return Mul(x, y) })
	deps[B+"Quo"] = bigBin("z.Quo(x,y): requires val(y)!=0 (panics otherwise); truncated quotient; returns z", func(ex *Exec, st *State, c *ssa.Call, x, y Term) Term {
		ex.safety(st, "bigdivzero", Not(Eq(y, IntLit(0))), c, "big.Int division by zero")
		return App(SInt, "tdiv", x, y)
	})
	deps[B+"Rem"] = bigBin("z.Rem(x,y): requires val(y)!=0; truncated remainder; returns z", func(ex *Exec, st *State, c *ssa.Call, x, y Term) Term {
		ex.safety(st, "bigdivzero", Not(Eq(y, IntLit(0))), c, "big.Int division by zero")
		return App(SInt, "trem", x, y)
	})
	deps[B+"QuoRem"] = &depHandler{[]string{"BigVal"}, "z.QuoRem(x,y,r): requires val(y)!=0 (panics otherwise) and z, r distinct; val(z)=truncated quotient and val(r)=truncated remainder of the operands' values before the call; returns (z,r)", func(ex *Exec, st *State, c *ssa.Call, a []SV) SV {
		z, x, y, r := a[0].T, a[1].T, a[2].T, a[3].T
		ex.notNil(st, z, c, "*big.Int receiver")
		ex.notNil(st, x, c, "*big.Int operand")
		ex.notNil(st, y, c, "*big.Int operand")
		ex.notNil(st, r, c, "*big.Int remainder receiver")
		xv, yv := bigVal(st, x), bigVal(st, y)
		ex.safety(st, "bigdivzero", Not(Eq(yv, IntLit(0))), c, "big.Int division by zero")
		ex.safety(st, "bigalias", Not(Eq(z, r)), c, "QuoRem: quotient and remainder must be distinct *big.Int")
		q := ex.define(st, "big", App(SInt, "tdiv", xv, yv))
		m := ex.define(st, "big", App(SInt, "trem", xv, yv))
		ex.setBig(st, z, q)
		ex.setBig(st, r, m)
		return SV{K: KTuple, Tuple: []SV{Scalar(z), Scalar(r)}}
	}}
	deps[B+"Div"] = bigBin("z.Div(x,y): requires val(y)!=0; Euclidean quotient; returns z", func(ex *Exec, st *State, c *ssa.Call, x, y Term) Term {
		ex.safety(st, "bigdivzero", Not(Eq(y, IntLit(0))), c, "big.Int division by zero")
		return App(SInt, "div", x, y)
	})
	deps[B+"Mod"] = bigBin("z.Mod(x,y): requires val(y)!=0; Euclidean modulus; returns z", func(ex *Exec, st *State, c *ssa.Call, x, y Term) Term {
		ex.safety(st, "bigdivzero", Not(Eq(y, IntLit(0))), c, "big.Int division by zero")
		return App(SInt, "mod", x, y)
	})
	deps[B+"And"] = bigBin("z.And(x,y): val(z)=bigand(val x,val y); for x>=0 and y=2^k-1 (k<=16): x mod 2^k; otherwise uninterpreted, >=0 for non-negative operands", func(ex *Exec, st *State, c *ssa.Call, x, y Term) Term {
		r := App(SInt, "f_bigand", x, y)
		st.assume(Implies(And(Ge(x, IntLit(0)), Ge(y, IntLit(0))), And(Ge(r, IntLit(0)), Le(r, x), Le(r, y))))
		return r
	})
	deps[B+"Or"] = bigBin("z.Or(x,y): val(z)=bigor(val x,val y); for non-negative operands max(x,y) <= z <= x+y, and z = x+y when one operand is a multiple of 2^k and the other is below 2^k (k<=16: disjoint bit ranges); otherwise uninterpreted", func(ex *Exec, st *State, c *ssa.Call, x, y Term) Term {
		r := ex.define(st, "big", App(SInt, "f_bigor", x, y))
		nn := And(Ge(x, IntLit(0)), Ge(y, IntLit(0)))
		st.assume(Implies(nn, And(Ge(r, x), Ge(r, y), Le(r, Add(x, y)))))
		for k := 1; k <= 16; k++ {
			pk := Pow2Lit(k)
			st.assume(Implies(And(nn, Eq(App(SInt, "mod", x, pk), IntLit(0)), Lt(y, pk)), Eq(r, Add(x, y))))
			st.assume(Implies(And(nn, Eq(App(SInt, "mod", y, pk), IntLit(0)), Lt(x, pk)), Eq(r, Add(x, y))))
		}
		return r
	})
	shift := func(fn string, doc string) *depHandler {
		return &depHandler{[]string{"BigVal"}, doc, func(ex *Exec, st *State, c *ssa.Call, a []SV) SV {
			z, x, n := a[0].T, a[1].T, a[2].T
			ex.notNil(st, z, c, "*big.Int receiver")
			ex.notNil(st, x, c, "*big.Int operand")
			v := ex.define(st, "big", App(SInt, fn, bigVal(st, x), n))
			ex.setBig(st, z, v)
			return Scalar(z)
		}}
	}
	deps[B+"Lsh"] = shift("f_bigshl", "z.Lsh(x,n): val(z)=val(x)*2^n; returns z")
	deps[B+"Rsh"] = shift("f_bigshr", "z.Rsh(x,n): val(z)=floor(val(x)/2^n) (axiomatised for x>=0, n<=16); returns z")
	regDep(B+"Set", []string{"BigVal"}, "z.Set(x): val(z)=val(x); returns z", func(ex *Exec, st *State, c *ssa.Call, a []SV) SV {
		ex.notNil(st, a[0].T, c, "*big.Int receiver")
		ex.notNil(st, a[1].T, c, "*big.Int operand")
		ex.setBig(st, a[0].T, bigVal(st, a[1].T))
		return Scalar(a[0].T)
	})
	regDep(B+"SetInt64", []string{"BigVal"}, "z.SetInt64(x): val(z)=x; returns z", func(ex *Exec, st *State, c *ssa.Call, a []SV) SV {
		ex.notNil(st, a[0].T, c, "*big.Int receiver")
		ex.setBig(st, a[0].T, a[1].T)
		return Scalar(a[0].T)
	})
	deps[B+"SetUint64"] = deps[B+"SetInt64"]
	regDep(B+"SetBytes", []string{"BigVal"}, "z.SetBytes(b): val(z)=be(b) (big-endian unsigned); b not modified; returns z", func(ex *Exec, st *State, c *ssa.Call, a []SV) SV {
		ex.notNil(st, a[0].T, c, "*big.Int receiver")
		ex.setBig(st, a[0].T, App(SInt, "f_be", ex.sliceBytes(st, a[1])))
		return Scalar(a[0].T)
	})
	regDep(B+"Bytes", []string{"BMem", "next"}, "x.Bytes(): fresh slice holding the MINIMAL-length big-endian magnitude of |x|", func(ex *Exec, st *State, c *ssa.Call, a []SV) SV {
		ex.notNil(st, a[0].T, c, "*big.Int receiver")
		x := bigVal(st, a[0].T)
		ex.declareFun("f_abs", []string{SInt}, SInt)
		mag := ex.define(st, "mag", Ite(Ge(x, IntLit(0)), x, App(SInt, "-", x)))
		content := App(SBytes, "f_minbytes", mag)
		n := ex.define(st, "byteslen", App(SInt, "f_minlen", mag))
		st.assume(Ge(n, IntLit(0)))
		return ex.newByteSlice(st, content, n)
	})
	regDep(B+"FillBytes", []string{"BMem"}, "x.FillBytes(buf): requires |x| < 256^len(buf) (panics otherwise); buf = len(buf)-byte big-endian |x|; returns buf", func(ex *Exec, st *State, c *ssa.Call, a []SV) SV {
		ex.notNil(st, a[0].T, c, "*big.Int receiver")
		x := bigVal(st, a[0].T)
		mag := ex.define(st, "mag", Ite(Ge(x, IntLit(0)), x, App(SInt, "-", x)))
		buf := a[1]
		ex.safety(st, "fillbytes", Le(App(SInt, "f_minlen", mag), buf.Len), c, "big.Int.FillBytes: buffer too small")
		ex.writeBytes(st, buf, App(SBytes, "f_mk", mag, buf.Len), c)
		return buf
	})
	regDep(B+"Int64", nil, "x.Int64(): the value if it fits in int64, otherwise the low 64 bits (wrapped)", func(ex *Exec, st *State, c *ssa.Call, a []SV) SV {
		ex.notNil(st, a[0].T, c, "*big.Int receiver")
		return Scalar(ex.define(st, "int64", App(SInt, "wrap_i64", bigVal(st, a[0].T))))
	})
	regDep(B+"Uint64", nil, "x.Uint64(): low 64 bits", func(ex *Exec, st *State, c *ssa.Call, a []SV) SV {
		ex.notNil(st, a[0].T, c, "*big.Int receiver")
		return Scalar(ex.define(st, "uint64", App(SInt, "wrap_u64", bigVal(st, a[0].T))))
	})
	regDep(B+"Cmp", nil, "x.Cmp(y): -1, 0, +1", func(ex *Exec, st *State, c *ssa.Call, a []SV) SV {
		ex.notNil(st, a[0].T, c, "*big.Int receiver")
		ex.notNil(st, a[1].T, c, "*big.Int operand")
		x, y := bigVal(st, a[0].T), bigVal(st, a[1].T)
		return Scalar(ex.define(st, "cmp", Ite(Lt(x, y), IntLit(-1), Ite(Eq(x, y), IntLit(0), IntLit(1)))))
	})
	regDep(B+"Sign", nil, "x.Sign()", func(ex *Exec, st *State, c *ssa.Call, a []SV) SV {
		ex.notNil(st, a[0].T, c, "*big.Int receiver")
		x := bigVal(st, a[0].T)
		return Scalar(ex.define(st, "sign", Ite(Lt(x, IntLit(0)), IntLit(-1), Ite(Eq(x, IntLit(0)), IntLit(0), IntLit(1)))))
	})

	// hashing
	regDep("crypto/sha256.New", []string{"HAcc", "HKind", "next"}, "sha256.New(): fresh hash.Hash with empty accumulator", func(ex *Exec, st *State, c *ssa.Call, a []SV) SV {
		r := ex.allocRef(st)
		st.heap["HAcc"] = ex.define(st, "HAcc", Store(st.heap["HAcc"], r, T(SBytes, "f_emptyB")))
		st.heap["HKind"] = ex.define(st, "HKind", Store(st.heap["HKind"], r, IntLit(256)))
		return Scalar(r)
	})
	regDep("crypto/sha256.Sum256", nil, "sha256.Sum256(data): the [32]byte value SHA-256(data) (sha256 uninterpreted, the same function as New/Write/Sum); data not modified", func(ex *Exec, st *State, c *ssa.Call, a []SV) SV {
		d := ex.define(st, "sum256", App(SBytes, "f_sha256", ex.sliceBytes(st, a[0])))
		return SV{K: KArray, Elem: "byte", T: d}
	})
	regDep("invoke hash.Hash.Write", []string{"HAcc"}, "h.Write(p): accumulator += p; returns (len(p), nil); p not modified", func(ex *Exec, st *State, c *ssa.Call, a []SV) SV {
		h := a[0].T
		ex.notNil(st, h, c, "hash.Hash")
		acc := App(SBytes, "f_bcat", Select(st.heap["HAcc"], h), ex.sliceBytes(st, a[1]))
		st.heap["HAcc"] = ex.define(st, "HAcc", Store(st.heap["HAcc"], h, acc))
		return SV{K: KTuple, Tuple: []SV{Scalar(a[1].Len), Scalar(T(SErr, "nilErr"))}}
	})
	regDep("invoke hash.Hash.Sum", []string{"BMem", "next"}, "h.Sum(b): appends SHA-256(accumulator) (sha256 uninterpreted; hasher from sha256.New) to b: for b == nil a fresh 32-byte slice; otherwise in place when cap(b)-len(b) >= 32 (b's backing array is written), else a fresh slice", func(ex *Exec, st *State, c *ssa.Call, a []SV) SV {
		h := a[0].T
		ex.notNil(st, h, c, "hash.Hash")
		ex.oblige(st, "dep", fmt.Sprintf("sha256-hasher@%s", ex.posOf(c)), Eq(Select(st.heap["HKind"], h), IntLit(256)), nil, c, "hasher must come from sha256.New")
		st.assume(Eq(Select(st.heap["HKind"], h), IntLit(256)))
		d := App(SBytes, "f_sha256", Select(st.heap["HAcc"], h))
		b := a[1]
		if b.Ref.S == "0" && b.Len.S == "0" && b.Cap.S == "0" {
			return ex.newByteSlice(st, d, IntLit(32))
		}
		// general case: append semantics
		newLen := ex.define(st, "sumlen", Add(b.Len, IntLit(32)))
		content := ex.define(st, "sumcontent", App(SBytes, "f_bcat", ex.sliceBytes(st, b), d))
		fits := ex.fresh("sum_fits", SBool)
		st.assume(Eq(fits, Le(newLen, b.Cap)))
		old := Select(st.heap["BMem"], b.Ref)
		r := ex.allocRef(st)
		ncap := ex.fresh("sumcap", SInt)
		st.assume(Ge(ncap, newLen))
		full := ex.fresh("bytes", SBytes)
		st.assume(Eq(App(SInt, "f_blen", full), ncap))
		st.assume(Eq(App(SBytes, "f_bsub", full, IntLit(0), newLen), content))
		nm := ex.fresh("bytes", SBytes)
		st.assume(Eq(App(SInt, "f_blen", nm), App(SInt, "f_blen", old)))
		st.assume(Eq(App(SBytes, "f_bsub", nm, b.Off, newLen), content))
		m1 := Store(st.heap["BMem"], r, full)
		st.heap["BMem"] = ex.define(st, "BMem", Store(m1, b.Ref, Ite(fits, nm, Select(m1, b.Ref))))
		return SV{K: KSlice, Elem: "byte", Ref: ex.define(st, "sumref", Ite(fits, b.Ref, r)), Off: ex.define(st, "sumoff", Ite(fits, b.Off, IntLit(0))), Len: newLen, Cap: ex.define(st, "sumcap2", Ite(fits, b.Cap, ncap))}
	})

	// io
	regDep("io.ReadFull", []string{"BMem", "RPos"}, "io.ReadFull(r, buf): stream contract: if len(buf)==0 reads nothing and returns (0,nil); if the source still delivers >= len(buf) bytes: buf = those bytes, position += len, returns (len,nil); otherwise returns (n<len, err!=nil), buf contents unspecified. Fragmentation across Read calls is inside this assumed contract.", func(ex *Exec, st *State, c *ssa.Call, a []SV) SV {
		r, buf := a[0].T, a[1]
		pos := ex.define(st, "rpos", Select(st.heap["RPos"], r))
		avail := App(SInt, "f_ravail", r)
		enough := Or(Eq(buf.Len, IntLit(0)), Le(Add(pos, buf.Len), avail))
		okc := ex.fresh("readfull_ok", SBool)
		st.assume(Eq(okc, enough))
		// nil reader: ReadFull on a nil io.Reader panics unless len(buf)==0
		ex.safety(st, "nilreader", Or(Not(Eq(r, IntLit(0))), Eq(buf.Len, IntLit(0))), c, "nil io.Reader")
		n := ex.fresh("readfull_n", SInt)
		e := ex.fresh("readfull_err", SErr)
		newContent := ex.fresh("readfull_buf", SBytes)
		st.assume(Eq(App(SInt, "f_blen", newContent), buf.Len))
		st.assume(Implies(okc, And(Eq(n, buf.Len), Eq(e, T(SErr, "nilErr")), Eq(newContent, App(SBytes, "f_rseg", r, pos, buf.Len)))))
		st.assume(Implies(Not(okc), And(Le(IntLit(0), n), Lt(n, buf.Len), Not(Eq(e, T(SErr, "nilErr"))))))
		ex.writeBytes(st, buf, newContent, c)
		npos := ex.define(st, "rpos", Ite(okc, Add(pos, buf.Len), Add(pos, n)))
		st.heap["RPos"] = ex.define(st, "RPos", Store(st.heap["RPos"], r, npos))
		return SV{K: KTuple, Tuple: []SV{Scalar(n), Scalar(e)}}
	})

	regDep("invoke io.Reader.Read", []string{"BMem", "RPos"}, "r.Read(p) (stream contract of a source): returns 0 <= n <= len(p) and any error; never more than the source still delivers (pos+n <= ravail when pos <= ravail, else n == 0); the first n bytes of p are the next n bytes of the stream, the rest of p is unchanged; position += n; n == 0 with a nil error only for len(p) == 0; while the source still delivers len(p) bytes: n >= 1 and nil error", func(ex *Exec, st *State, c *ssa.Call, a []SV) SV {
		r, buf := a[0].T, a[1]
		ex.safety(st, "nilreader", Not(Eq(r, IntLit(0))), c, "nil io.Reader")
		pos := ex.define(st, "rpos", Select(st.heap["RPos"], r))
		avail := App(SInt, "f_ravail", r)
		n := ex.fresh("read_n", SInt)
		e := ex.fresh("read_err", SErr)
		st.assume(And(Le(IntLit(0), n), Le(n, buf.Len)))
		st.assume(Le(n, Ite(Ge(Sub(avail, pos), IntLit(0)), Sub(avail, pos), IntLit(0))))
		st.assume(Implies(And(Eq(n, IntLit(0)), Gt(buf.Len, IntLit(0))), Not(Eq(e, T(SErr, "nilErr")))))
		// a source that still delivers len(p) bytes does not fail and makes progress
		st.assume(Implies(And(Gt(buf.Len, IntLit(0)), Le(Add(pos, buf.Len), avail)), And(Ge(n, IntLit(1)), Eq(e, T(SErr, "nilErr")))))
		old := ex.sliceBytes(st, buf)
		newContent := ex.fresh("read_buf", SBytes)
		st.assume(Eq(App(SInt, "f_blen", newContent), buf.Len))
		st.assume(Eq(App(SBytes, "f_bsub", newContent, IntLit(0), n), App(SBytes, "f_rseg", r, pos, n)))
		st.assume(Eq(App(SBytes, "f_bsub", newContent, n, Sub(buf.Len, n)), App(SBytes, "f_bsub", old, n, Sub(buf.Len, n))))
		st.assume(Implies(Eq(n, buf.Len), Eq(newContent, App(SBytes, "f_rseg", r, pos, buf.Len))))
		st.assume(Implies(Eq(n, IntLit(0)), Eq(newContent, old)))
		ex.writeBytes(st, buf, newContent, c)
		st.heap["RPos"] = ex.define(st, "RPos", Store(st.heap["RPos"], r, Add(pos, n)))
		return SV{K: KTuple, Tuple: []SV{Scalar(n), Scalar(e)}}
	})
	regDep("io.ReadAtLeast", []string{"BMem", "RPos"}, "io.ReadAtLeast(r, buf, min): requires min <= len(buf) (else returns ErrShortBuffer); returns (n, nil) with min <= n <= len(buf) when the source still delivers >= min bytes, else (n < min, err != nil); only the first n bytes of buf are defined by the stream", func(ex *Exec, st *State, c *ssa.Call, a []SV) SV {
		r, buf, min := a[0].T, a[1], a[2].T
		pos := ex.define(st, "rpos", Select(st.heap["RPos"], r))
		avail := App(SInt, "f_ravail", r)
		n := ex.fresh("readatleast_n", SInt)
		e := ex.fresh("readatleast_err", SErr)
		okc := And(Le(min, buf.Len), Or(Le(min, IntLit(0)), Le(Add(pos, min), avail)))
		st.assume(And(Le(IntLit(0), n), Le(n, buf.Len)))
		st.assume(Implies(okc, And(Ge(n, min), Eq(e, T(SErr, "nilErr")))))
		st.assume(Implies(Not(okc), And(Lt(n, min), Not(Eq(e, T(SErr, "nilErr"))))))
		newContent := ex.fresh("readatleast_buf", SBytes)
		st.assume(Eq(App(SInt, "f_blen", newContent), buf.Len))
		st.assume(Implies(And(okc, Eq(n, buf.Len)), Eq(newContent, App(SBytes, "f_rseg", r, pos, buf.Len))))
		ex.writeBytes(st, buf, newContent, c)
		st.heap["RPos"] = ex.define(st, "RPos", Store(st.heap["RPos"], r, Add(pos, n)))
		return SV{K: KTuple, Tuple: []SV{Scalar(n), Scalar(e)}}
	})

	// strings
	regDep("strings.Join", nil, "strings.Join(elems, sep) = join(elems, sep); elems not modified", func(ex *Exec, st *State, c *ssa.Call, a []SV) SV {
		return Scalar(ex.define(st, "joined", App(SStr, "f_join", ex.sliceSeq(st, a[0]), a[1].T)))
	})
	regDep("strings.Split", []string{"SMem", "next"}, "strings.Split(s, sep), sep non-empty: fresh slice = split(s, sep) (>= 1 element, elements free of sep, join(split)=s)", func(ex *Exec, st *State, c *ssa.Call, a []SV) SV {
		ex.oblige(st, "dep", fmt.Sprintf("split-sep-nonempty@%s", ex.posOf(c)), Not(Eq(a[1].T, T(SStr, "lit_empty"))), nil, c, "strings.Split with empty separator is outside the contract")
		st.assume(Not(Eq(a[1].T, T(SStr, "lit_empty"))))
		sq := ex.define(st, "splitseq", App(SSeq, "f_split", a[0].T, a[1].T))
		r := ex.allocRef(st)
		st.heap["SMem"] = ex.define(st, "SMem", Store(st.heap["SMem"], r, App(SAIS, "f_arrOf", sq)))
		n := ex.define(st, "splitlen", App(SInt, "f_slen", sq))
		return SV{K: KSlice, Elem: "string", Ref: r, Off: IntLit(0), Len: n, Cap: n}
	})
	regDep("strings.Fields", []string{"SMem", "next"}, "strings.Fields(s): fresh slice = fields(s) (maximal runs of non-white-space)", func(ex *Exec, st *State, c *ssa.Call, a []SV) SV {
		sq := ex.define(st, "fieldseq", App(SSeq, "f_fields", a[0].T))
		r := ex.allocRef(st)
		st.heap["SMem"] = ex.define(st, "SMem", Store(st.heap["SMem"], r, App(SAIS, "f_arrOf", sq)))
		n := ex.define(st, "fieldslen", App(SInt, "f_slen", sq))
		return SV{K: KSlice, Elem: "string", Ref: r, Off: IntLit(0), Len: n, Cap: n}
	})
	regDep("(golang.org/x/text/unicode/norm.Form).String", nil, "norm.NFKD.String(s) = nfkd(s): total; N1 idempotent; N2 ASCII prefix; N3j sentence of stable words joined by U+0020/U+3000", func(ex *Exec, st *State, c *ssa.Call, a []SV) SV {
		form := a[0].T
		if form.S != "3" {
			ex.declareFun("f_normOther", []string{SInt, SStr}, SStr)
			return Scalar(ex.define(st, "norm", App(SStr, "f_normOther", form, a[1].T)))
		}
		return Scalar(ex.define(st, "nfkd", App(SStr, "f_nfkd", a[1].T)))
	})
	regDep("strconv.FormatInt", nil, "strconv.FormatInt(i, 10) = itoa(i) (injective)", func(ex *Exec, st *State, c *ssa.Call, a []SV) SV {
		if a[1].T.S != "10" {
			ex.declareFun("f_itoaBase", []string{SInt, SInt}, SStr)
			return Scalar(App(SStr, "f_itoaBase", a[0].T, a[1].T))
		}
		return Scalar(ex.define(st, "itoa", App(SStr, "f_itoa", a[0].T)))
	})
	regDep("strconv.Itoa", nil, "strconv.Itoa(i) = itoa(i)", func(ex *Exec, st *State, c *ssa.Call, a []SV) SV {
		return Scalar(ex.define(st, "itoa", App(SStr, "f_itoa", a[0].T)))
	})

	// errors / fmt
	regDep("errors.New", []string{"next"}, "errors.New(msg): fresh non-nil error, Is == identity, message msg", func(ex *Exec, st *State, c *ssa.Call, a []SV) SV {
		r := ex.allocRef(st)
		return Scalar(App(SErr, "f_errNew", r, a[0].T))
	})
	regDep("fmt.Errorf", []string{"next"}, "fmt.Errorf(constFormat, args): fresh non-nil error; message = format with %s/%v of a string replaced verbatim, %d of an int by itoa; without %w Is == identity", func(ex *Exec, st *State, c *ssa.Call, a []SV) SV {
		msg, plain := ex.formatMessage(st, c, a)
		r := ex.allocRef(st)
		if plain {
			return Scalar(App(SErr, "f_errNew", r, msg))
		}
		e := ex.fresh("errorf", SErr)
		st.assume(And(Eq(App(SInt, "f_eref", e), r), Eq(App(SStr, "f_msg", e), msg)))
		// %w: errors.Is(e, t) holds whenever it holds for a wrapped error
		for _, inner := range ex.wrapped {
			t := T(SErr, "t")
			st.assume(Forall([]Term{t}, Implies(App(SBool, "f_is", inner, t), App(SBool, "f_is", e, t)), App(SBool, "f_is", e, t)))
		}
		ex.wrapped = nil
		return Scalar(e)
	})
	regDep("fmt.Sprintf", nil, "fmt.Sprintf(constFormat, args): as for Errorf", func(ex *Exec, st *State, c *ssa.Call, a []SV) SV {
		msg, _ := ex.formatMessage(st, c, a)
		return Scalar(msg)
	})

	regDep("bytes.Equal", nil, "bytes.Equal(a, b) == (contents equal)", func(ex *Exec, st *State, c *ssa.Call, a []SV) SV {
		return Scalar(ex.define(st, "byteseq", Eq(ex.sliceBytes(st, a[0]), ex.sliceBytes(st, a[1]))))
	})
	regDep("crypto/subtle.ConstantTimeCompare", nil, "subtle.ConstantTimeCompare(x, y) = 1 if contents (and lengths) are equal, else 0", func(ex *Exec, st *State, c *ssa.Call, a []SV) SV {
		return Scalar(ex.define(st, "ctcmp", Ite(Eq(ex.sliceBytes(st, a[0]), ex.sliceBytes(st, a[1])), IntLit(1), IntLit(0))))
	})
	regDep("errors.Is", nil, "errors.Is(err, target) = is(err, target): reflexive; identity for errors.New / Errorf-without-%w values", func(ex *Exec, st *State, c *ssa.Call, a []SV) SV {
		return Scalar(ex.define(st, "erris", App(SBool, "f_is", a[0].T, a[1].T)))
	})
	// pbkdf2
	regDep("golang.org/x/crypto/pbkdf2.Key", []string{"BMem", "next"}, "pbkdf2.Key(pw, salt, iter, keyLen, h): fresh slice of keyLen bytes = PBKDF2-HMAC-h(pw, salt, iter, keyLen) (uninterpreted; h identified by the constructor passed); pw, salt not modified", func(ex *Exec, st *State, c *ssa.Call, a []SV) SV {
		hk := IntLit(0)
		if a[4].K == KFunc && a[4].Fn != nil {
			switch a[4].Fn.String() {
			case "crypto/sha512.New":
				hk = IntLit(512)
			case "crypto/sha256.New":
				hk = IntLit(256)
			case "crypto/sha1.New":
				hk = IntLit(1)
			default:
				hk = ex.fresh("hashctor", SInt)
			}
		} else {
			hk = ex.fresh("hashctor", SInt)
		}
		ex.safety(st, "pbkdf2-keylen", Ge(a[3].T, IntLit(0)), c, "negative key length")
		key := App(SBytes, "f_pbkdf2", ex.sliceBytes(st, a[0]), ex.sliceBytes(st, a[1]), a[2].T, a[3].T, hk)
		return ex.newByteSlice(st, ex.define(st, "key", key), a[3].T)
	})
}

// writeBytes overwrites the bytes of buf (whole allocation if buf covers it;
// otherwise the allocation becomes an unknown value that agrees on buf).
func (ex *Exec) writeBytes(st *State, buf SV, content Term, c ssa.Instruction) {
	mem := Select(st.heap["BMem"], buf.Ref)
	whole := And(Eq(buf.Off, IntLit(0)), Eq(buf.Len, App(SInt, "f_blen", mem)))
	nm := ex.fresh("bytes", SBytes)
	st.assume(Eq(App(SInt, "f_blen", nm), App(SInt, "f_blen", mem)))
	st.assume(Implies(whole, Eq(nm, content)))
	st.assume(Eq(App(SBytes, "f_bsub", nm, buf.Off, buf.Len), content))
	// the bytes before and after the written window are unchanged
	st.assume(Eq(App(SBytes, "f_bsub", nm, IntLit(0), buf.Off), App(SBytes, "f_bsub", mem, IntLit(0), buf.Off)))
	end := Add(buf.Off, buf.Len)
	rest := Sub(App(SInt, "f_blen", mem), end)
	st.assume(Eq(App(SBytes, "f_bsub", nm, end, rest), App(SBytes, "f_bsub", mem, end, rest)))
	st.heap["BMem"] = ex.define(st, "BMem", Store(st.heap["BMem"], buf.Ref, nm))
}

// formatMessage interprets a constant format string over the varargs slice.
func (ex *Exec) formatMessage(st *State, c *ssa.Call, a []SV) (Term, bool) {
	fc, ok := c.Call.Args[0].(*ssa.Const)
	if !ok || fc.Value == nil || fc.Value.Kind() != constant.String {
		return ex.fresh("fmtmsg", SStr), false
	}
	format := constant.StringVal(fc.Value)
	var args []Term
	if len(a) > 1 && a[1].K == KSlice && a[1].Cell != nil {
		arr := st.cells[a[1].Cell]
		at := a[1].Cell.Type().(*types.Pointer).Elem().Underlying().(*types.Array)
		for i := int64(0); i < at.Len(); i++ {
			if e, ok := arr.Elems[i]; ok {
				args = append(args, e)
			} else {
				args = append(args, Select(arr.T, IntLit(i)))
			}
		}
	} else if len(a) > 1 && !(a[1].K == KSlice && a[1].Len.S == "0") {
		return ex.fresh("fmtmsg", SStr), false
	}
	plain := true
	var parts []Term
	flush := func(s string) {
		if s != "" {
			parts = append(parts, ex.lit(s))
		}
	}
	lit := ""
	ai := 0
	for i := 0; i < len(format); i++ {
		ch := format[i]
		if ch != '%' {
			lit += string(ch)
			continue
		}
		if i+1 >= len(format) {
			return ex.fresh("fmtmsg", SStr), false
		}
		i++
		verb := format[i]
		if verb == '%' {
			lit += "%"
			continue
		}
		flush(lit)
		lit = ""
		if ai >= len(args) {
			return ex.fresh("fmtmsg", SStr), false
		}
		arg := args[ai]
		ai++
		// the argument is an Any built by MakeInterface: recover the payload
		s := arg.S
		switch {
		case (verb == 's' || verb == 'v') && strings.HasPrefix(s, "(f_anyStr "):
			parts = append(parts, T(SStr, s[len("(f_anyStr "):len(s)-1]))
		case (verb == 'd' || verb == 'v') && strings.HasPrefix(s, "(f_anyInt "):
			parts = append(parts, App(SStr, "f_itoa", T(SInt, s[len("(f_anyInt "):len(s)-1])))
		case verb == 'q' && strings.HasPrefix(s, "(f_anyStr "):
			// %q of a string: the quoted form is taken to name the string (escapes aside)
			ex.declareFun("f_quote", []string{SStr}, SStr)
			inner := T(SStr, s[len("(f_anyStr "):len(s)-1])
			q := App(SStr, "f_quote", inner)
			st.assume(App(SBool, "f_contains", q, inner))
			parts = append(parts, q)
		case verb == 'w' && strings.HasPrefix(s, "(f_anyErr "):
			plain = false
			innerE := T(SErr, s[len("(f_anyErr "):len(s)-1])
			ex.wrapped = append(ex.wrapped, innerE)
			parts = append(parts, App(SStr, "f_msg", innerE))
		case verb == 'w':
			plain = false
			ex.declareFun("f_fmtAny", []string{SInt, SAny}, SStr)
			parts = append(parts, App(SStr, "f_fmtAny", IntLit(int64(verb)), arg))
		default:
			ex.declareFun("f_fmtAny", []string{SInt, SAny}, SStr)
			parts = append(parts, App(SStr, "f_fmtAny", IntLit(int64(verb)), arg))
		}
	}
	flush(lit)
	if len(parts) == 0 {
		return T(SStr, "lit_empty"), plain
	}
	// right-nested concatenation: p0 ++ (p1 ++ (...))
	msg := parts[len(parts)-1]
	for i := len(parts) - 2; i >= 0; i-- {
		msg = App(SStr, "f_cat", parts[i], msg)
	}
	return ex.define(st, "fmtmsg", msg), plain
}

func depDocs(used map[string]bool) []string {
	var out []string
	for k := range used {
		if d, ok := deps[k]; ok {
			out = append(out, k+": "+d.doc)
		}
	}
	sort.Strings(out)
	return out
}
