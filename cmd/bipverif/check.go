package main

// The per-property check: generate, select by property tag, discharge,
// report violations (with replay), write evidence.

import (
	"encoding/json"
	"flag"
	"fmt"
	"os"
	"path/filepath"
	"regexp"
	"runtime"
	"sort"
	"strconv"
	"strings"
	"time"
)

type KnownFinding struct {
	Property   string `json:"property"`
	Obligation string `json:"obligation"` // regexp over obligation names
	Witness    string `json:"witness"`    // description of the failing input class
	Status     string `json:"status"`     // open | fixed
	Commit     string `json:"commit,omitempty"`
	What       string `json:"what"`
}

func loadKnown() []KnownFinding {
	var kf struct {
		Findings []KnownFinding `json:"findings"`
	}
	data, err := os.ReadFile(filepath.Join(verifDir, "known_findings.json"))
	if err != nil {
		return nil
	}
	_ = json.Unmarshal(data, &kf)
	return kf.Findings
}

var reSuffix = regexp.MustCompile(`~\d+$`)

func baseName(n string) string { return reSuffix.ReplaceAllString(n, "") }

func hasTag(o *Obligation, prop string) bool {
	for _, t := range o.Tags {
		if t == prop {
			return true
		}
	}
	return false
}

type checkOpts struct {
	prop     string
	tier     string
	seed     int64
	timeoutS int
}

func cmdCheck(args []string) {
	fs := flag.NewFlagSet("check", flag.ExitOnError)
	tier := fs.String("tier", envOr("VERIF_TIER", "quick"), "quick|thorough")
	_ = fs.Parse(args)
	if fs.NArg() < 1 {
		fmt.Fprintln(os.Stderr, "usage: bipverif check [-tier quick|thorough] <property>")
		os.Exit(2)
	}
	seed, _ := strconv.ParseInt(envOr("VERIF_SEED", "1"), 10, 64)
	opts := checkOpts{prop: fs.Arg(0), tier: *tier, seed: seed, timeoutS: 10}
	if opts.tier == "thorough" {
		opts.timeoutS = 60
	}
	// a machine that is already busy (other checks running side by side) gets a proportionally
	// larger solver budget, so that load alone does not turn into undecided obligations
	if data, err := os.ReadFile("/proc/loadavg"); err == nil {
		var l1 float64
		if _, err := fmt.Sscanf(string(data), "%f", &l1); err == nil {
			if f := l1 / float64(runtime.NumCPU()); f > 1 {
				if f > 5 {
					f = 5
				}
				opts.timeoutS = int(float64(opts.timeoutS) * f)
			}
		}
	}
	os.Exit(runCheck(opts))
}

func runCheck(opts checkOpts) int {
	t0 := time.Now()
	prop := opts.prop
	p, err := loadAll()
	if err != nil {
		fmt.Fprintln(os.Stderr, "bipverif: cannot load the tree under test:", err)
		return 2
	}
	p.returnCovers = opts.tier == "thorough"
	var obls []*Obligation
	obls = append(obls, p.groundObligations()...)
	obls = append(obls, p.generate("")...)
	p.inheritTags(obls)
	obls = append(obls, p.disciplineObligations()...)
	obls = append(obls, p.toolObligations(opts)...)
	obls = append(obls, p.conformanceObligations(opts)...)
	genS := time.Since(t0).Seconds()
	var sel []*Obligation
	for _, o := range obls {
		if hasTag(o, prop) {
			sel = append(sel, o)
		}
	}
	// covers (vacuity guards) of every function that contributes an obligation
	fnSet := map[string]bool{}
	for _, o := range sel {
		fnSet[o.Fn] = true
	}
	for _, o := range obls {
		if (o.Kind == "cover" || o.Kind == "cover-return" || o.Kind == "cover-goal") && fnSet[o.Fn] {
			sel = append(sel, o)
		}
	}
	// the axiom set must not be refutable, alone or together with ground terms that apply every
	// prelude function to corner arguments (-1, 0, 1, empty, nil): a range axiom stated for all
	// arguments that contradicts a constructor axiom at an argument no execution produces is an
	// inconsistency all the same, and a solver may use it
	for _, native := range []bool{false, true} {
		name := "prelude/cover/consistency-probed"
		if native {
			name += "-native-strings"
		}
		sel = append(sel, &Obligation{Name: name, Fn: "prelude", Kind: "cover", Expect: "sat", Goal: "prelude axioms satisfiable together with corner-case ground terms",
			Script: p.prelude(native) + preludeProbe(p.prelude(native)) + "(check-sat)\n"})
	}
	if opts.tier == "thorough" {
		// the axiom set alone must not be refutable (a contradictory prelude would prove everything)
		for _, native := range []bool{false, true} {
			name := "prelude/cover/consistency"
			if native {
				name += "-native-strings"
			}
			sel = append(sel, &Obligation{Name: name, Fn: "prelude", Kind: "cover", Expect: "sat", Goal: "prelude axioms satisfiable",
				Script: p.prelude(native) + "(check-sat)\n"})
		}
	}
	work := filepath.Join(verifDir, "work", prop+os.Getenv("VERIF_WORK_SUFFIX"))
	_ = os.RemoveAll(work)
	_ = os.MkdirAll(work, 0o755)
	t1 := time.Now()
	solveAllTier(sel, opts, work)
	// proof alternatives: a function whose base proof fails is tried under the alternatives
	// its contract carries (variants.go); accepted only when every obligation is discharged
	if acc := p.tryVariants(sel, opts, work); len(acc) > 0 {
		sel = replaceByVariants(sel, acc, func(o *Obligation) bool {
			return hasTag(o, prop) || o.Kind == "cover" || o.Kind == "cover-return" || o.Kind == "cover-goal"
		})
	}
	for _, l := range p.variantLog {
		fmt.Println("bipverif: alternatives:", l)
	}
	solveS := time.Since(t1).Seconds()

	known := loadKnown()
	var violations, knownHits []*Obligation
	toolErr := false
	nObl, nDis := 0, 0
	perBackend := map[string]int{}
	var solverTime float64
	covers := 0
	// return-path covers: informational, except that a function none of whose returns is
	// reachable under its own assumptions is certainly verified vacuously
	{
		byFn := map[string][3]int{}
		for _, o := range sel {
			if o.Kind != "cover-return" {
				continue
			}
			c := byFn[o.Fn]
			switch o.Result.Status {
			case "sat":
				c[0]++
			case "unsat":
				c[2]++
			default:
				c[1]++
			}
			byFn[o.Fn] = c
		}
		if len(byFn) > 0 {
			tot := [3]int{}
			var dead []string
			for fn, c := range byFn {
				tot[0] += c[0]
				tot[1] += c[1]
				tot[2] += c[2]
				if c[0]+c[1] == 0 && c[2] > 0 {
					dead = append(dead, fn)
				}
			}
			sort.Strings(dead)
			p.returnCoverStats = map[string]interface{}{"return_paths_shown_reachable": tot[0], "not_refuted_within_budget": tot[1], "refuted_(dead_path_or_split_branch)": tot[2], "functions_with_every_return_refuted": dead}
			for _, fn := range dead {
				fmt.Printf("bipverif: VACUITY: no return of %s is reachable under its assumptions\n", fn)
				toolErr = true
			}
		}
	}
	// clause twins: a clause and its negation both refuted on a path whose plain cover was not
	{
		byName := map[string]*Obligation{}
		pathCover := map[string]*Obligation{}
		for _, o := range sel {
			byName[o.Name] = o
			if o.Kind == "cover-return" {
				pathCover[o.Fn+"|"+o.Pos] = o
			}
		}
		twins, both := 0, 0
		var suspects []string
		for _, o := range sel {
			if o.Kind != "cover-goal" {
				continue
			}
			twins++
			orig := byName[o.Twin]
			if orig == nil || !orig.ok() || orig.Trivial || o.Result.Status != "unsat" {
				continue
			}
			both++
			if pc := pathCover[o.Fn+"|"+o.Pos]; pc != nil && pc.Result.Status != "unsat" {
				suspects = append(suspects, baseName(orig.Name))
			}
		}
		if twins > 0 {
			sort.Strings(suspects)
			p.twinStats = map[string]interface{}{"ensures_clauses_mirrored": twins, "clause_and_negation_both_refuted": both, "of_these_on_a_path_not_shown_dead": suspects}
			for _, s := range suspects {
				fmt.Printf("bipverif: VACUITY: %s and its negation are both refuted on a path that is not shown dead\n", s)
				toolErr = true
			}
		}
	}
	for _, o := range sel {
		if o.Kind == "cover-return" || o.Kind == "cover-goal" {
			continue
		}
		if o.Kind == "cover" {
			covers++
			if !o.ok() {
				fmt.Printf("bipverif: VACUITY: assumptions of %s are contradictory (%s)\n", o.Fn, o.Result.Status)
				toolErr = true
			}
			continue
		}
		if o.Kind != "audit" {
			nObl++
		} else {
			p.quickAudits = append(p.quickAudits, map[string]interface{}{"audit": o.Name, "clause": o.Clause, "passed": o.ok(), "detail": o.Reason, "label": "bounded audit of an assumption, not proof"})
		}
		solverTime += o.Result.TimeS
		if o.Result.Status == "disagree" {
			fmt.Printf("bipverif: solver disagreement on %s\n", o.Name)
			toolErr = true
			continue
		}
		if o.ok() {
			if o.Kind != "audit" {
				nDis++
			}
			perBackend[o.Result.Solver]++
			continue
		}
		isKnown := false
		for _, k := range known {
			if k.Status != "open" || k.Property != prop {
				continue
			}
			if m, _ := regexp.MatchString(k.Obligation, baseName(o.Name)); m {
				isKnown = true
			}
		}
		if isKnown {
			knownHits = append(knownHits, o)
		} else {
			violations = append(violations, o)
		}
	}
	// report
	printed := map[string]bool{}
	for _, o := range knownHits {
		for _, k := range known {
			if k.Status == "open" && k.Property == prop {
				if m, _ := regexp.MatchString(k.Obligation, baseName(o.Name)); m && !printed[k.Obligation] {
					printed[k.Obligation] = true
					fmt.Printf("KNOWN-FINDING: property=%s %s (obligation %s)\n", prop, k.What, baseName(o.Name))
				}
			}
		}
	}
	replayDir := filepath.Join(verifDir, "replays"+os.Getenv("VERIF_WORK_SUFFIX"))
	_ = os.MkdirAll(replayDir, 0o755)
	// group violations by base obligation name: one VIOLATION line each
	grouped := map[string][]*Obligation{}
	var order []string
	for _, o := range violations {
		b := baseName(o.Name)
		if _, ok := grouped[b]; !ok {
			order = append(order, b)
		}
		grouped[b] = append(grouped[b], o)
	}
	for _, b := range order {
		os_ := grouped[b]
		rp := p.replay(prop, os_, opts, replayDir)
		suffix := ""
		if !rp.Found {
			suffix = " no-failing-input-found"
		}
		fmt.Printf("VIOLATION property=%s replay=%s obligation=%s%s\n", prop, rp.Path, b, suffix)
	}
	// thorough tier: audits of the assumptions and the must-fail corpus
	if opts.tier == "thorough" && os.Getenv("VERIF_NO_EVIDENCE") == "" {
		audits, err := p.runAudits(opts)
		p.audits = audits
		if err != nil {
			fmt.Println("bipverif:", err)
			toolErr = true
		}
		st, err := p.runSelftest(opts)
		p.selftest = st
		if err != nil {
			fmt.Println("bipverif:", err)
			toolErr = true
		}
		if prop == "C14" || prop == "C09" || prop == "C01" || prop == "C16" {
			// the guard guarded: the probed-consistency cover must still refute the prelude as it
			// was before the errNew axiom got its guard (the contradiction the seeded corpus found)
			good := p.prelude(false)
			const fixed = "(=> (> r 0) (and (= (f_eref (f_errNew r m)) r) (= (f_msg (f_errNew r m)) m) (f_plainErr (f_errNew r m))))"
			const broken = "(and (= (f_eref (f_errNew r m)) r) (= (f_msg (f_errNew r m)) m) (f_plainErr (f_errNew r m)))"
			if strings.Contains(good, fixed) {
				bad := strings.Replace(good, fixed, broken, 1)
				o := &Obligation{Name: "prelude/selftest/probe-refutes-known-contradiction", Fn: "prelude", Kind: "lemma", Expect: "unsat",
					Script: bad + preludeProbe(bad) + "(check-sat)\n"}
				solveAll([]*Obligation{o}, 20, false, work)
				p.probeSelftest = map[string]interface{}{"what": "probed-consistency cover run on the prelude with the former errNew axiom restored", "expected": "unsat", "got": o.Result.Status, "solver": o.Result.Solver}
				if o.Result.Status != "unsat" {
					fmt.Println("bipverif: the prelude probe no longer refutes the known contradiction")
					toolErr = true
				}
			} else {
				p.probeSelftest = map[string]interface{}{"what": "skipped: the errNew axiom has a different text now"}
			}
			er, err := runEngineSelftest()
			p.engineTest = er
			if err != nil {
				fmt.Println("bipverif:", err)
				toolErr = true
			}
		}
		// cross-check of the trusted base: the replay oracles (executable twins written from the
		// BIP text, independent of the contracts) search for a failing input on this very tree;
		// finding one although every obligation was discharged means a contract, an axiom or an
		// assumed dependency contract is wrong
		if len(order) == 0 && prop != "C17" {
			res, cmdline, note := p.runHarness(prop, "thorough-cross-check", map[string]string{}, opts)
			p.crossCheck = map[string]interface{}{"what": "bounded search with the replay oracles on the unchanged tree (not proof)", "cmd": cmdline, "result": res, "note": note}
			if f, ok := res["found"].(bool); ok && f {
				fmt.Printf("bipverif: INCONSISTENCY: every obligation of %s was discharged but the replay search exhibits a failing input: %v\n", prop, res)
				toolErr = true
			}
		}
		bn, err := p.runBenign(opts)
		p.benign = bn
		if err != nil {
			fmt.Println("bipverif:", err)
			toolErr = true
		}
	}
	wall := time.Since(t0).Seconds()
	if os.Getenv("VERIF_NO_EVIDENCE") == "" {
		writeEvidence(p, opts, sel, obls, nObl, nDis, covers, perBackend, solverTime, genS, solveS, wall, len(order), knownHits)
	}
	fmt.Printf("bipverif: property %s tier %s: %d obligations, %d discharged, %d violated (%d distinct), %d known; load %.1fs gen %.1fs solve %.1fs\n",
		prop, opts.tier, nObl, nDis, len(violations), len(order), len(knownHits), p.loadSecs, genS-p.loadSecs, solveS)
	if toolErr {
		return 2
	}
	if nObl == 0 {
		fmt.Printf("bipverif: no obligation carries tag %s: refusing to report success\n", prop)
		return 2
	}
	if len(order) > 0 {
		return 1
	}
	return 0
}

func solveAllTier(sel []*Obligation, opts checkOpts, work string) {
	// covers get a short budget: "not refuted" is all they can show
	var covers, rest []*Obligation
	var rcovers []*Obligation
	for _, o := range sel {
		if o.Kind == "cover" {
			covers = append(covers, o)
		} else if o.Kind == "cover-return" || o.Kind == "cover-goal" {
			rcovers = append(rcovers, o)
		} else {
			rest = append(rest, o)
		}
	}
	defer solveAll(rcovers, 3, false, work)
	done := make(chan struct{})
	ct := 2
	if opts.tier == "thorough" {
		ct = 20
	}
	go func() { solveAll(covers, ct, false, work); close(done) }()
	solveAll(rest, opts.timeoutS, opts.tier == "thorough", work)
	<-done
}

type evidence struct {
	PropertyID  string                 `json:"property_id"`
	Tier        string                 `json:"tier"`
	Seed        int64                  `json:"seed"`
	Level       string                 `json:"level"`
	Coverage    map[string]interface{} `json:"coverage"`
	Assumptions []string               `json:"assumptions"`
	WallS       float64                `json:"wall_s"`
	Violations  int                    `json:"violations"`
}

func writeEvidence(p *Program, opts checkOpts, sel, all []*Obligation, nObl, nDis, covers int, perBackend map[string]int, solverTime, genS, solveS, wall float64, nViol int, knownHits []*Obligation) {
	fns := map[string]bool{}
	kinds := map[string]int{}
	var samples []map[string]interface{}
	var slow []map[string]interface{}
	for _, o := range sel {
		if o.Kind == "cover" {
			continue
		}
		fns[o.Fn] = true
		kinds[o.Kind]++
		if len(samples) < 12 && !o.Trivial && (o.Kind == "ensures" || o.Kind == "inv-preserved" || o.Kind == "lemma" || o.Kind == "ground" || o.Kind == "discipline" || o.Kind == "panic") {
			samples = append(samples, map[string]interface{}{"obligation": o.Name, "kind": o.Kind, "clause": o.Clause, "status": o.Result.Status, "backend": o.Result.Solver, "time_s": round3(o.Result.TimeS), "pos": o.Pos})
		}
		if o.Result.TimeS > 5 {
			slow = append(slow, map[string]interface{}{"obligation": o.Name, "time_s": round3(o.Result.TimeS)})
		}
	}
	if len(samples) == 0 {
		for _, o := range sel {
			if o.Kind != "cover" && len(samples) < 12 {
				samples = append(samples, map[string]interface{}{"obligation": o.Name, "kind": o.Kind, "clause": o.Clause, "status": statusOf(o), "backend": o.Result.Solver, "pos": o.Pos})
			}
		}
	}
	var fnList []string
	for f := range fns {
		fnList = append(fnList, f)
	}
	sort.Strings(fnList)
	level := propertyLevel(opts.prop)
	var known []string
	for _, o := range knownHits {
		known = append(known, o.Name)
	}
	cov := map[string]interface{}{
		"obligations":              nObl,
		"discharged":               nDis,
		"checker_cmd":              fmt.Sprintf("/verif/run.sh %s %s", opts.prop, opts.tier),
		"trusted_base":             trustedBase(),
		"samples":                  samples,
		"functions_under_contract": fnList,
		"obligations_by_kind":      kinds,
		"per_backend":              perBackend,
		"solver_time_s":            round3(solverTime),
		"generate_s":               round3(genS),
		"solve_wall_s":             round3(solveS),
		"covers_checked":           covers,
		"slow_obligations":         slow,
		"known_finding_hits":       known,
		"integers":                 "machine integers are modelled exactly (wrap-around on every operation); big.Int values are mathematical integers",
		"contracts_files":          p.Contracts.Files,
		"contract_clauses":         p.Contracts.RawLines,
		"explanation":              propertyExplanation(opts.prop),
	}
	for k, v := range p.extraCoverage(opts.prop) {
		cov[k] = v
	}
	ev := evidence{PropertyID: opts.prop, Tier: opts.tier, Seed: opts.seed, Level: level, Coverage: cov,
		Assumptions: p.assumptions(opts.prop, fnList), WallS: round3(wall), Violations: nViol}
	data, _ := json.MarshalIndent(ev, "", " ")
	_ = os.MkdirAll(filepath.Join(verifDir, "evidence"), 0o755)
	_ = os.WriteFile(filepath.Join(verifDir, "evidence", opts.prop+".json"), append(data, '\n'), 0o644)
}

func statusOf(o *Obligation) string {
	if o.Failed {
		return "failed: " + o.Reason
	}
	return o.Result.Status
}

func round3(x float64) float64 { return float64(int64(x*1000+0.5)) / 1000 }

func trustedBase() []string {
	return []string{
		"go/packages, go/types, go/ssa (golang.org/x/tools v0.29.0, naive form) translate the source faithfully",
		"the VC generator /verif/cmd/bipverif and its SMT prelude (spec functions, positional-notation axioms)",
		"z3 4.8.12, z3 5.1.0, cvc5 1.0.3 (first unsat wins in quick tier; all three cross-checked in thorough tier)",
		"assumed contracts of dependency functions (listed under assumptions)",
	}
}

func propertyLevel(prop string) string {
	if prop == "C17" {
		return "other"
	}
	return "proof"
}

func (p *Program) assumptions(prop string, fns []string) []string {
	out := []string{
		"memory exhaustion, scheduling and wall-clock time are not modelled",
		"the gc compiler's own translation and optimiser are not examined (the verified text is the go/ssa form of the current tree)",
	}
	used := map[string]bool{}
	for _, f := range fns {
		for d := range p.fnDeps[f] {
			used[d] = true
		}
	}
	out = append(out, depDocs(used)...)
	if used["(*sync.Once).Do"] {
		out = append(out, "(*sync.Once).Do: runs f exactly once to completion before any Do returns; every return of Do happens-after that run (Go memory model)")
	}
	for c := range p.extConsts {
		out = append(out, c+": exported variable of a dependency package, assumed non-nil and never reassigned by the dependency")
	}
	out = append(out, propertyAssumptions(prop)...)
	sort.Strings(out[2:])
	return out
}

var _ = strings.TrimSpace

// preludeProbe: ground terms applying every function declared in the prelude
// to corner arguments, each bound to a fresh constant so that the solver's
// pattern-based instantiation fires on them.
func preludeProbe(prelude string) string {
	re := regexp.MustCompile(`(?m)^\(declare-fun ([A-Za-z_0-9]+) \(([^()]*(?:\([^()]*\)[^()]*)*)\) ([A-Za-z]+|\(Array [^()]*(?:\([^()]*\))?[^()]*\))\)$`)
	var b strings.Builder
	b.WriteString("(declare-const pr_s1 Str)\n(declare-const pr_s2 Str)\n(declare-const pr_b1 Bytes)\n(declare-const pr_q1 SSeq)\n(declare-const pr_e1 Err)\n(declare-const pr_a1 Any)\n(declare-const pr_i1 Int)\n")
	vals := map[string][]string{
		"Int":   {"(- 1)", "0", "1", "pr_i1", "33"},
		"Str":   {"pr_s1", "lit_empty", "lit_space", "pr_s2"},
		"Bytes": {"pr_b1", "f_emptyB"},
		"SSeq":  {"pr_q1"},
		"Err":   {"pr_e1", "nilErr"},
		"Any":   {"pr_a1"},
		"Bool":  {"true", "false"},
	}
	k := 0
	keepDeclared := map[string]bool{}
	for _, m := range re.FindAllStringSubmatch(prelude, -1) {
		name, ret := m[1], m[3]
		var sorts []string
		for _, f := range splitSorts(m[2]) {
			sorts = append(sorts, f)
		}
		ok := true
		for _, srt := range sorts {
			if vals[srt] == nil {
				ok = false
			}
		}
		if !ok || len(sorts) == 0 {
			continue
		}
		// all combinations, capped
		idx := make([]int, len(sorts))
		for n := 0; n < 48; n++ {
			args := make([]string, len(sorts))
			for i, srt := range sorts {
				args[i] = vals[srt][idx[i]]
			}
			k++
			// handed to an uninterpreted predicate so that preprocessing cannot eliminate the term
			if !keepDeclared[ret] {
				keepDeclared[ret] = true
				fmt.Fprintf(&b, "(declare-fun pr_keep_%s (%s) Bool)\n", smtName(ret), ret)
			}
			fmt.Fprintf(&b, "(assert (pr_keep_%s (%s %s))) ; pr_t%d\n", smtName(ret), name, strings.Join(args, " "), k)
			// next combination
			j := 0
			for j < len(idx) {
				idx[j]++
				if idx[j] < len(vals[sorts[j]]) {
					break
				}
				idx[j] = 0
				j++
			}
			if j == len(idx) {
				break
			}
		}
	}
	return b.String()
}

func splitSorts(s string) []string {
	var out []string
	depth, start := 0, -1
	for i := 0; i < len(s); i++ {
		switch s[i] {
		case '(':
			if depth == 0 && start < 0 {
				start = i
			}
			depth++
		case ')':
			depth--
			if depth == 0 {
				out = append(out, s[start:i+1])
				start = -1
			}
		case ' ':
			if depth == 0 && start >= 0 {
				out = append(out, s[start:i])
				start = -1
			}
		default:
			if start < 0 {
				start = i
			}
		}
	}
	if start >= 0 {
		out = append(out, s[start:])
	}
	return out
}
