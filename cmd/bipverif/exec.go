package main

// Forward symbolic execution of go/ssa (naive form) with loops cut at their
// invariants; produces one SMT-LIB obligation per safety condition, contract
// clause, loop obligation and frame condition.

import (
	"fmt"
	"go/ast"
	"go/constant"
	"go/token"
	"go/types"
	"os"
	"sort"
	"strings"

	"golang.org/x/tools/go/ssa"
)

type Obligation struct {
	Name    string
	Fn      string
	Kind    string
	Tags    []string
	Goal    string
	Pos     string
	Script  string
	Watches []string
	Result  SolverResult
	Cex     SolverResult
	Watch   []watch
	Trivial bool
	Failed  bool   // generator-level failure (unsupported construct etc.)
	Reason  string // for Failed
	Expect  string // "unsat" normally; "sat" for cover checks
	Clause  string // source text of the clause
	Hints   map[string]string
	Twin    string // cover-goal: name of the ensures obligation it mirrors
	Variant string // proof alternative under which the obligation was generated ("" = base contract)
}

type loopInfo struct {
	ordinal  int
	fn       *ssa.Function
	header   *ssa.BasicBlock
	blocks   map[*ssa.BasicBlock]bool
	stored   []*ssa.Alloc
	storedFV []*ssa.FreeVar // captured variables stored to inside the loop
	touch    map[string]bool
	globals  map[*ssa.Global]bool
	inferred *inferredLoop
	lc       *LoopContract // written clauses that apply to this loop (nil: guessed)
	simple   bool          // no calls, no map updates: a wipe / copy / compare loop
}

func (li *loopInfo) label() string {
	return fmt.Sprintf("loop%d", li.ordinal)
}

type Exec struct {
	p             *Program
	fn            *ssa.Function
	fc            *FuncContract
	name          string
	native        bool
	decls         []string
	declSet       map[string]bool
	nfresh        int
	obls          []*Obligation
	entry         *State
	loops         map[*ssa.BasicBlock]*loopInfo
	loopsOf       map[*ssa.Function]bool
	paths         int
	watches       []watch
	params        map[string]SV
	lets          map[string]SV
	letSrc        map[string]string
	axioms        []string     // quantified facts about the entry heap (prunable)
	extra         []string     // extra assertions (ground instances) global to this function
	curLoop       *loopInfo    // loop whose contract clauses are being interpreted (for `iter`)
	collector     *[]inlineRet // non-nil while an uncontracted helper is executed inline
	inlineDepth   int
	curBinds      []SV   // bindings of the function literal about to be called
	wrapped       []Term // errors bound to %w verbs of the format being interpreted
	isInit        bool
	reportLenient bool
	ghostFn       bool // defined in a verif-tagged file (ghost client)
	lenient       bool
	inOnce        bool
	covers        int
	callDepth     int
	entryInv      map[string]string // invariant label -> term at entry
	retCount      int
	stepBudget    int
}

type watch struct {
	name string
	t    Term
}

const maxPaths = 96

func (ex *Exec) fresh(base, sort string) Term {
	ex.nfresh++
	name := fmt.Sprintf("%s_%d", smtName(base), ex.nfresh)
	ex.declare(name, sort)
	return T(sort, name)
}

func (ex *Exec) declare(name, sort string) {
	if ex.declSet[name] {
		return
	}
	ex.declSet[name] = true
	ex.decls = append(ex.decls, fmt.Sprintf("(declare-const %s %s)", name, sort))
}

func (ex *Exec) declareFun(name string, args []string, ret string) {
	if ex.declSet[name] {
		return
	}
	ex.declSet[name] = true
	ex.decls = append(ex.decls, fmt.Sprintf("(declare-fun %s (%s) %s)", name, strings.Join(args, " "), ret))
}

// define introduces a named constant equal to t (keeps terms small, gives models names).
func (ex *Exec) define(st *State, base string, t Term) Term {
	if isAtom(t.S) {
		return t
	}
	c := ex.fresh(base, t.Sort)
	st.assume(Eq(c, t))
	return c
}

func isAtom(s string) bool {
	if strings.HasPrefix(s, "(- ") && !strings.ContainsAny(s[3:], "( ") {
		return true
	}
	return !strings.ContainsAny(s, "( ")
}

// lit returns the term for a string literal.
func (ex *Exec) lit(s string) Term {
	switch s {
	case "":
		return T(SStr, "lit_empty")
	case " ":
		return T(SStr, "lit_space")
	case "　":
		return T(SStr, "lit_u3000")
	}
	if n, ok := ex.p.lits[s]; ok {
		return T(SStr, n)
	}
	n := fmt.Sprintf("lit_%d", len(ex.p.litList)+1)
	ex.p.lits[s] = n
	ex.p.litList = append(ex.p.litList, s)
	return T(SStr, n)
}

func smtStringLit(s string) string {
	var b strings.Builder
	b.WriteByte('"')
	for _, r := range s {
		switch {
		case r == '"':
			b.WriteString(`""`)
		case r == '\\':
			b.WriteString(`\u{5c}`)
		case r >= 0x20 && r < 0x7f:
			b.WriteRune(r)
		default:
			fmt.Fprintf(&b, `\u{%x}`, r)
		}
	}
	b.WriteByte('"')
	return b.String()
}

func isASCII(s string) bool {
	for i := 0; i < len(s); i++ {
		if s[i] >= 0x80 {
			return false
		}
	}
	return true
}

func (ex *Exec) literalDecls() string {
	var b strings.Builder
	names := []string{"lit_empty", "lit_space", "lit_u3000"}
	vals := []string{"", " ", "　"}
	for _, s := range ex.p.litList {
		n := ex.p.lits[s]
		fmt.Fprintf(&b, "(declare-const %s Str)\n", n)
		names = append(names, n)
		vals = append(vals, s)
	}
	if ex.native {
		for i, s := range vals {
			if i < 3 {
				continue
			}
			fmt.Fprintf(&b, "(assert (= %s %s))\n", names[i], smtStringLit(s))
		}
	} else {
		fmt.Fprintf(&b, "(assert (distinct %s))\n", strings.Join(names, " "))
		for i, s := range vals {
			fmt.Fprintf(&b, "(assert (= (f_strlen %s) %d))\n", names[i], len(s))
		}
	}
	for i, s := range vals {
		if isASCII(s) {
			fmt.Fprintf(&b, "(assert (f_ascii %s))\n", names[i])
		}
	}
	return b.String()
}

// ---------------------------------------------------------------------------
// obligations

func (ex *Exec) posOf(instr ssa.Instruction) string {
	if instr == nil {
		return ""
	}
	p := instr.Pos()
	if !p.IsValid() {
		// walk to the nearest instruction in the block with a position
		if b := instr.Block(); b != nil {
			for _, in := range b.Instrs {
				if in.Pos().IsValid() {
					p = in.Pos()
					break
				}
			}
		}
	}
	if !p.IsValid() {
		return ""
	}
	pp := ex.p.Fset.Position(p)
	return fmt.Sprintf("%s:%d", relPath(ex.p.RepoDir, pp.Filename), pp.Line)
}

func relPath(base, p string) string {
	if strings.HasPrefix(p, base+"/") {
		return p[len(base)+1:]
	}
	return p
}

func (ex *Exec) uniqueName(name string) string {
	n := 0
	for _, o := range ex.obls {
		if o.Name == name || strings.HasPrefix(o.Name, name+"~") {
			n++
		}
	}
	if n == 0 {
		return name
	}
	return fmt.Sprintf("%s~%d", name, n+1)
}

func (ex *Exec) oblige(st *State, kind, label string, goal Term, tags []string, instr ssa.Instruction, clause string) *Obligation {
	tags = ex.effectiveTags(kind, tags)
	name := ex.uniqueName(fmt.Sprintf("%s/%s/%s", ex.name, kind, label))
	o := &Obligation{Name: name, Fn: ex.name, Kind: kind, Tags: tags, Goal: goal.S, Pos: ex.posOf(instr), Expect: "unsat", Clause: clause}
	if goal.S == "true" {
		o.Trivial = true
		o.Result = SolverResult{Status: "unsat", Solver: "trivial"}
		ex.obls = append(ex.obls, o)
		return o
	}
	o.Script = ex.script(st, Not(goal))
	if ex.p.returnCovers && kind == "ensures" && !ex.isInit {
		// thorough tier: the mirror query "path and clause" must not be refutable unless the path
		// itself is dead; a clause and its negation both "proved" on a live path means the
		// assumptions are contradictory in a way the plain cover did not expose
		tw := &Obligation{Name: name + "/twin", Fn: ex.name, Kind: "cover-goal", Expect: "sat", Goal: "clause satisfiable on this path", Pos: o.Pos, Twin: name}
		tw.Script = ex.script(st, goal)
		defer func() { ex.obls = append(ex.obls, tw) }()
	}
	o.Watch = append([]watch(nil), ex.watches...)
	ex.obls = append(ex.obls, o)
	return o
}

// noteDep records that this function's proof used the assumed contract of a dependency.
func (ex *Exec) noteDep(name string) {
	ex.p.usedDeps[name] = true
	if ex.p.fnDeps[ex.name] == nil {
		ex.p.fnDeps[ex.name] = map[string]bool{}
	}
	ex.p.fnDeps[ex.name][name] = true
}

// effectiveTags: which properties an obligation counts for. Explicit clause
// tags win; supporting obligations (invariants, asserts, splits, call-site
// preconditions, safety) count for every property the function's ensures
// clauses are tagged with, safety and termination additionally for C14,
// frames for C13.
func (ex *Exec) effectiveTags(kind string, tags []string) []string {
	if ex.fn != nil && ex.p.Tool != nil && ex.fn.Pkg == ex.p.Tool {
		// the generator is not part of the library API: its obligations count for C17 only
		return []string{"C17"}
	}
	seen := map[string]bool{}
	var out []string
	add := func(ts ...string) {
		for _, t := range ts {
			if !seen[t] {
				seen[t] = true
				out = append(out, t)
			}
		}
	}
	add(tags...)
	switch kind {
	case "safety", "requires", "subset", "dep", "contract", "loop":
		add("C14")
		add(ex.fnTags()...)
		if (kind == "subset" || kind == "contract" || kind == "loop") && !ex.ghostFn {
			// the generator could not follow this code to its returns, so the frame
			// obligations of the function were not generated: what it writes is undecided
			add("C13", "C12")
		}
	case "variant":
		add("C14")
	case "inv-entry", "inv-preserved", "assert", "split-cover":
		if len(tags) == 0 {
			add(ex.fnTags()...)
		}
		// the safety obligations that follow are proved under these facts
		if !ex.ghostFn {
			add("C14")
		}
	case "lemma", "panic":
		if len(tags) == 0 {
			add(ex.fnTags()...)
		}
	case "loop-frame", "call-inv":
		add("C13", "C12")
		add(ex.fnTags()...)
		if !ex.ghostFn {
			add("C14")
		}
	case "frame", "global-inv", "init-inv":
		// frames: nothing shared is written outside the declared, Once-guarded state (C12, C13)
		add("C13", "C12")
	}
	sort.Strings(out)
	return out
}

func (ex *Exec) failObl(kind, label, reason string, tags []string, instr ssa.Instruction) {
	tags = ex.effectiveTags(kind, tags)
	name := ex.uniqueName(fmt.Sprintf("%s/%s/%s", ex.name, kind, label))
	ex.obls = append(ex.obls, &Obligation{Name: name, Fn: ex.name, Kind: kind, Tags: tags, Failed: true, Reason: reason, Pos: ex.posOf(instr), Expect: "unsat"})
}

// script assembles prelude + declarations + path facts + negated goal.
func (ex *Exec) script(st *State, negGoal Term) string {
	var b strings.Builder
	for _, a := range ex.p.initFacts {
		fmt.Fprintf(&b, "(assert %s)\n", a)
	}
	for _, a := range ex.extra {
		fmt.Fprintf(&b, "(assert %s)\n", a)
	}
	for _, t := range st.pc {
		fmt.Fprintf(&b, "(assert %s)\n", t.S)
	}
	fmt.Fprintf(&b, "(assert %s)\n", negGoal.S)
	b.WriteString("(check-sat)\n")
	if len(ex.watches) > 0 {
		b.WriteString("(get-value (")
		for _, w := range ex.watches {
			b.WriteString(w.t.S)
			b.WriteByte(' ')
		}
		b.WriteString("))\n")
	}
	body := b.String()
	var ax strings.Builder
	// declarations first: entry-heap axioms mention the entry heap constants
	for _, a := range ex.axioms {
		fmt.Fprintf(&ax, "(assert %s)\n", a)
	}
	var db strings.Builder
	for _, d := range ex.decls {
		db.WriteString(d)
		db.WriteByte('\n')
	}
	if !ex.isInit {
		// symbols of the package initialiser (values of unknown initialisers)
		for _, d := range ex.p.initDecls {
			db.WriteString(d)
			db.WriteByte('\n')
		}
	}
	pre := ex.p.prelude(ex.native) + ex.literalDecls() + db.String() + ax.String()
	if noPrune {
		return pre + body
	}
	return pruneScript(pre, body) + body
}

var noPrune = os.Getenv("VERIF_NOPRUNE") != ""

func (ex *Exec) watch(name string, t Term) {
	for _, w := range ex.watches {
		if w.name == name {
			return
		}
	}
	ex.watches = append(ex.watches, watch{name, t})
}

// ---------------------------------------------------------------------------
// values by type

func (ex *Exec) freshOfType(st *State, base string, t types.Type, isParam bool) SV {
	c := classify(t)
	switch c.K {
	case KScalar:
		v := ex.fresh(base, c.Sort)
		if c.What == "int" {
			st.assume(ex.inRange(v, c))
		}
		if c.What == "bigint" || c.What == "map" || c.What == "iface" {
			st.assume(Ge(v, IntLit(0)))
			if isParam {
				st.assume(Lt(v, ex.entryNext()))
			}
		}
		return Scalar(v)
	case KSlice:
		sv := SV{K: KSlice, Elem: c.Elem,
			Ref: ex.fresh(base+"_ref", SInt), Off: ex.fresh(base+"_off", SInt),
			Len: ex.fresh(base+"_len", SInt), Cap: ex.fresh(base+"_cap", SInt)}
		st.assume(And(Ge(sv.Ref, IntLit(0)), Ge(sv.Off, IntLit(0)), Ge(sv.Len, IntLit(0)), Le(sv.Len, sv.Cap),
			Lt(sv.Cap, T(SInt, "4611686018427387904"))))
		if isParam {
			st.assume(Lt(sv.Ref, ex.entryNext()))
			if c.Elem == "byte" {
				st.assume(Le(Add(sv.Off, sv.Cap), App(SInt, "f_blen", Select(st.heap["BMem"], sv.Ref))))
			}
		}
		return sv
	case KTuple:
		tt := t.(*types.Tuple)
		var sv SV
		sv.K = KTuple
		for i := 0; i < tt.Len(); i++ {
			sv.Tuple = append(sv.Tuple, ex.freshOfType(st, fmt.Sprintf("%s_%d", base, i), tt.At(i).Type(), isParam))
		}
		return sv
	case KArray:
		return SV{K: KArray, T: ex.fresh(base, c.Sort)}
	case KUnit:
		return SV{K: KUnit}
	}
	return SV{K: KOpaque, Why: "value of unsupported type " + t.String()}
}

func (ex *Exec) entryNext() Term {
	if ex.entry != nil {
		return ex.entry.next
	}
	return T(SInt, "next_0")
}

func (ex *Exec) inRange(v Term, c TClass) Term {
	lo, hi := intRange(c)
	return And(Le(lo, v), Le(v, hi))
}

func intRange(c TClass) (Term, Term) {
	if c.Signed {
		return T(SInt, "(- "+pow2str(c.Bits-1)+")"), T(SInt, "(- "+pow2str(c.Bits-1)+" 1)")
	}
	return IntLit(0), T(SInt, "(- "+pow2str(c.Bits)+" 1)")
}

func wrapFn(c TClass) string {
	s := "u"
	if c.Signed {
		s = "i"
	}
	return fmt.Sprintf("wrap_%s%d", s, c.Bits)
}

func (ex *Exec) zeroOfType(st *State, t types.Type) SV {
	c := classify(t)
	switch c.K {
	case KScalar:
		switch c.Sort {
		case SInt:
			return Scalar(IntLit(0))
		case SBool:
			return Scalar(TFalse)
		case SStr:
			return Scalar(T(SStr, "lit_empty"))
		case SErr:
			return Scalar(T(SErr, "nilErr"))
		case SAny:
			return Scalar(T(SAny, "nilAny"))
		}
	case KSlice:
		return SV{K: KSlice, Elem: c.Elem, Ref: IntLit(0), Off: IntLit(0), Len: IntLit(0), Cap: IntLit(0)}
	case KArray:
		switch c.Sort {
		case SAII:
			return SV{K: KArray, T: T(SAII, "((as const (Array Int Int)) 0)")}
		case SAIS:
			return SV{K: KArray, T: T(SAIS, "zeroStrArr")}
		case SAIA:
			return SV{K: KArray, T: T(SAIA, "zeroAnyArr")}
		}
	case KStruct:
		stt := t.Underlying().(*types.Struct)
		sv := SV{K: KStruct}
		for i := 0; i < stt.NumFields(); i++ {
			sv.Fields = append(sv.Fields, ex.zeroOfType(st, stt.Field(i).Type()))
		}
		return sv
	case KFunc:
		return SV{K: KOpaque, Why: "nil func"}
	case KPtr:
		return SV{K: KOpaque, Why: "nil pointer"}
	}
	return SV{K: KOpaque, Why: "zero of unsupported type " + t.String()}
}

func (ex *Exec) constVal(st *State, c *ssa.Const) SV {
	t := c.Type()
	if c.Value == nil {
		return ex.zeroOfType(st, t)
	}
	cl := classify(t)
	switch c.Value.Kind() {
	case constant.Bool:
		return Scalar(BoolLit(constant.BoolVal(c.Value)))
	case constant.String:
		return Scalar(ex.lit(constant.StringVal(c.Value)))
	case constant.Int:
		if cl.What == "int" {
			bi, ok := constant.Val(c.Value).(interface{ String() string })
			_ = bi
			_ = ok
			s := c.Value.ExactString()
			n, _ := newBig(s)
			return Scalar(BigLit(n))
		}
	}
	return SV{K: KOpaque, Why: "constant of unsupported type " + t.String()}
}

// ---------------------------------------------------------------------------
// running a function

func (p *Program) contractName(fn *ssa.Function) string {
	if fn.Parent() != nil {
		// closure: Parent$writes(g) if it stores to exactly one package-level
		// variable (stable under reordering of literals), else Parent$k
		pn := p.contractName(fn.Parent())
		written := map[string]bool{}
		for _, b := range fn.Blocks {
			for _, in := range b.Instrs {
				if st, ok := in.(*ssa.Store); ok {
					if g, ok := st.Addr.(*ssa.Global); ok {
						written[g.Name()] = true
					}
				}
			}
		}
		if len(written) == 1 {
			for g := range written {
				return pn + "$writes(" + g + ")"
			}
		}
		nm := fn.Name() // e.g. mapping$1
		if k := strings.LastIndex(nm, "$"); k >= 0 {
			return pn + nm[k:]
		}
		return pn + "$" + nm
	}
	if fn.Pkg != nil && !p.isOurPkg(fn.Pkg) && fn.Signature.Recv() == nil {
		// function of a dependency package put under contract: pkgname.Func
		return fn.Pkg.Pkg.Name() + "." + fn.Name()
	}
	if recv := fn.Signature.Recv(); recv != nil {
		t := recv.Type()
		if pt, ok := t.(*types.Pointer); ok {
			t = pt.Elem()
		}
		if n, ok := t.(*types.Named); ok {
			return n.Obj().Name() + "." + fn.Name()
		}
	}
	return fn.Name()
}

func (p *Program) newExec(fn *ssa.Function, fc *FuncContract) *Exec {
	ex := &Exec{p: p, fn: fn, fc: fc, declSet: map[string]bool{},
		params: map[string]SV{}, lets: map[string]SV{}, letSrc: map[string]string{}, entryInv: map[string]string{}}
	if fn != nil {
		ex.name = p.contractName(fn)
	} else if fc != nil {
		ex.name = fc.Name
	}
	if fc != nil {
		ex.native = fc.Native
	}
	return ex
}

func (ex *Exec) newEntryState() *State {
	st := &State{cells: map[*ssa.Alloc]SV{}, vals: map[ssa.Value]SV{}, heap: map[string]Term{},
		globals: map[*ssa.Global]SV{}, loops: map[*ssa.BasicBlock]*loopFrame{}, ghosts: map[string]SV{},
		calls: map[string]int{}, splits: map[int]bool{}}
	for _, h := range heapMaps {
		ex.declare(h+"_0", heapSort[h])
		st.heap[h] = T(heapSort[h], h+"_0")
	}
	ex.declare("next_0", SInt)
	st.next = T(SInt, "next_0")
	st.assume(Ge(st.next, IntLit(1000)))
	ex.entry = st
	// mutable globals
	for _, g := range ex.p.mutableGlobals() {
		st.globals[g] = ex.freshOfType(st, "g_"+g.Name(), g.Type().(*types.Pointer).Elem(), true)
	}
	ex.assumeHeapBasics(st)
	return st
}

// assumeHeapBasics: facts about the initial heap that hold in every reachable
// state: the nil map is empty; the word lists hold lst(L, i); init facts.
func (ex *Exec) assumeHeapBasics(st *State) {
	w := T(SStr, "w")
	ex.axioms = append(ex.axioms, Forall([]Term{w}, Not(Select(Select(st.heap["MDom"], IntLit(0)), w)), Select(Select(st.heap["MDom"], IntLit(0)), w)).S)
	i := T(SInt, "i")
	for l, ln := range ex.p.Lang.Names {
		n := int64(2048)
		if wl := ex.p.loadWordLists()[ln]; wl != nil && wl.Bad == "" {
			n = int64(len(wl.Words))
		}
		cell := Select(Select(st.heap["SMem"], IntLit(int64(l+1))), i)
		body := Implies(And(Le(IntLit(0), i), Lt(i, IntLit(n))), Eq(cell, App(SStr, "f_lst", IntLit(int64(l)), i)))
		ex.axioms = append(ex.axioms, Forall([]Term{i}, body, cell).S)
	}
	// heap-resident facts established by the package initialiser (values of
	// the immutable big.Int globals): these are global invariants too, see
	// Program.heapInvariants; they are assumed here and re-proved at exit.
}

func (ex *Exec) run() {
	fn := ex.fn
	defer func() {
		if r := recover(); r != nil {
			if ue, ok := r.(unsupported); ok {
				ex.failObl("subset", "unsupported", string(ue), nil, nil)
				return
			}
			// never crash on code outside what the generator was written for:
			// the function is reported as not verified
			ex.failObl("subset", "unsupported", fmt.Sprintf("construct the generator cannot process (%v)", r), nil, nil)
		}
	}()
	ex.findLoops()
	st := ex.newEntryState()
	// parameters
	for _, p := range fn.Params {
		sv := ex.freshOfType(st, "p_"+p.Name(), p.Type(), true)
		st.vals[p] = sv
		ex.params[p.Name()] = sv
		ex.watchSV("param."+p.Name(), sv, st)
	}
	if len(fn.FreeVars) > 0 {
		panic(unsupported("closure with free variables: " + fn.Name()))
	}
	// global invariants assumed at entry
	for _, inv := range ex.p.Contracts.Invariants {
		t := ex.specBool(st, inv.Expr, &specCtx{mode: "entry"})
		ex.entryInv[inv.Label] = t.S
		st.assume(t)
	}
	if ex.fc != nil {
		for _, l := range ex.fc.Lets {
			ex.lets[l.Name] = ex.spec(st, l.Expr, &specCtx{mode: "entry"})
			ex.letSrc[l.Name] = l.Src
		}
		for _, r := range ex.fc.Requires {
			st.assume(ex.specBool(st, r.Expr, &specCtx{mode: "entry"}))
		}
		for _, wd := range ex.fc.Watches {
			if wd.Count == 0 {
				ex.watch(wd.Name, ex.specTerm(st, wd.Expr, &specCtx{mode: "entry"}))
				continue
			}
			for j := 0; j < wd.Count; j++ {
				ctx := (&specCtx{mode: "entry"}).withBound("j", IntLit(int64(j)))
				ex.watch(fmt.Sprintf("%s.%d", wd.Name, j), ex.specTerm(st, wd.Expr, ctx))
			}
		}
	}
	// cover: requires + invariants are satisfiable (vacuity guard)
	cov := &Obligation{Name: ex.name + "/cover/entry", Fn: ex.name, Kind: "cover", Expect: "sat", Goal: "entry assumptions satisfiable"}
	cov.Script = ex.script(st, TTrue)
	ex.obls = append(ex.obls, cov)

	ex.stepBudget = 200000
	ex.entry = st.clone()
	for _, s := range ex.applySplits(st, "entry", nil) {
		ex.runBlock(s, fn.Blocks[0], 0)
	}
	// orphan loop contracts
	if ex.fc != nil {
		for n := range ex.fc.Loops {
			found := false
			for _, li := range ex.loops {
				if (li.ordinal == n && li.fn == ex.fn) || (li.lc != nil && li.lc == ex.fc.Loops[n]) {
					found = true
				}
			}
			if !found {
				ex.failObl("contract", fmt.Sprintf("orphan-loop-%d", n), "loop contract refers to a loop that does not exist", nil, nil)
			}
		}
	}
}

type unsupported string

func (ex *Exec) watchSV(name string, sv SV, st *State) {
	switch sv.K {
	case KScalar:
		if sv.T.Sort == SInt || sv.T.Sort == SBool {
			ex.watch(name, sv.T)
		}
	case KSlice:
		ex.watch(name+".len", sv.Len)
		if sv.Elem == "byte" {
			ex.watch(name+".be", App(SInt, "f_be", ex.sliceBytes(st, sv)))
		}
	}
}

func (ex *Exec) findLoops() {
	ex.loops = map[*ssa.BasicBlock]*loopInfo{}
	ex.loopsOf = map[*ssa.Function]bool{}
	ex.addLoops(ex.fn)
}

// escapingAllocs: local variables whose address is captured by a closure or
// handed to a call: a call inside a loop may change them.
func escapingAllocs(fn *ssa.Function) []*ssa.Alloc {
	var out []*ssa.Alloc
	var escapes func(v ssa.Value, depth int) bool
	escapes = func(v ssa.Value, depth int) bool {
		if v.Referrers() == nil || depth > 4 {
			return depth > 4
		}
		for _, r := range *v.Referrers() {
			switch x := r.(type) {
			case *ssa.MakeClosure, *ssa.Call, *ssa.Defer, *ssa.Go, *ssa.MakeInterface, *ssa.Return, *ssa.Phi:
				return true
			case *ssa.Store:
				if x.Val == v {
					return true
				}
			case *ssa.FieldAddr:
				if escapes(x, depth+1) {
					return true
				}
			case *ssa.IndexAddr:
				if escapes(x, depth+1) {
					return true
				}
			case *ssa.Slice:
				// a slice of a local array: local byte arrays live in the byte heap (their
				// writes are heap writes); other arrays are only handed to fmt-style varargs
			}
		}
		return false
	}
	for _, b := range fn.Blocks {
		for _, in := range b.Instrs {
			if a, ok := in.(*ssa.Alloc); ok && escapes(a, 0) {
				out = append(out, a)
			}
		}
	}
	return out
}

// addLoops finds the natural loops of fn (the function under contract, or a
// function executed inline in it).
func (ex *Exec) addLoops(fn *ssa.Function) {
	if ex.loopsOf[fn] {
		return
	}
	ex.loopsOf[fn] = true
	escaping := escapingAllocs(fn)
	var headers []*ssa.BasicBlock
	for _, b := range fn.Blocks {
		for _, s := range b.Succs {
			if s.Dominates(b) {
				li := ex.loops[s]
				if li == nil {
					li = &loopInfo{fn: fn, header: s, blocks: map[*ssa.BasicBlock]bool{s: true}, touch: map[string]bool{}, globals: map[*ssa.Global]bool{}}
					ex.loops[s] = li
					headers = append(headers, s)
				}
				// natural loop of back edge b->s
				var stack []*ssa.BasicBlock
				if !li.blocks[b] {
					li.blocks[b] = true
					stack = append(stack, b)
				}
				for len(stack) > 0 {
					x := stack[len(stack)-1]
					stack = stack[:len(stack)-1]
					for _, p := range x.Preds {
						if !li.blocks[p] {
							li.blocks[p] = true
							stack = append(stack, p)
						}
					}
				}
			}
		}
	}
	// ordinal by source position of the header (fallback: block index)
	sort.Slice(headers, func(i, j int) bool { return headers[i].Index < headers[j].Index })
	sort.SliceStable(headers, func(i, j int) bool {
		pi, pj := blockPos(headers[i]), blockPos(headers[j])
		if pi.IsValid() && pj.IsValid() {
			return pi < pj
		}
		return false
	})
	// which written loop clauses apply to which loop: by position when the counts agree;
	// when the function has gained loops, the loops that call nothing (wipe, copy, compare
	// loops) are set aside and the written clauses go to the others in order
	for _, h := range headers {
		li := ex.loops[h]
		li.simple = true
		for b := range li.blocks {
			for _, in := range b.Instrs {
				switch c := in.(type) {
				case *ssa.Call:
					if _, isB := c.Call.Value.(*ssa.Builtin); !isB {
						li.simple = false
					}
				case *ssa.MapUpdate, *ssa.Defer, *ssa.Go:
					li.simple = false
				}
			}
		}
	}
	ordinals := make([]int, len(headers))
	for i := range headers {
		ordinals[i] = i + 1
	}
	if fn == ex.fn && ex.fc != nil && len(ex.fc.Loops) > 0 && len(headers) > len(ex.fc.Loops) {
		var ks []int
		for k := range ex.fc.Loops {
			ks = append(ks, k)
		}
		sort.Ints(ks)
		var busy []int
		for i, h := range headers {
			if !ex.loops[h].simple {
				busy = append(busy, i)
			}
		}
		if len(busy) == len(ks) {
			next := len(ks) + 1
			for i := range ordinals {
				ordinals[i] = 0
			}
			for j, i := range busy {
				ordinals[i] = ks[j]
			}
			for i := range ordinals {
				if ordinals[i] == 0 {
					for ex.fc.Loops[next] != nil {
						next++
					}
					ordinals[i] = next
					next++
				}
			}
		}
	}
	for i, h := range headers {
		li := ex.loops[h]
		li.ordinal = ordinals[i]
		if fn == ex.fn && ex.fc != nil {
			li.lc = ex.fc.Loops[li.ordinal]
		}
		seen := map[*ssa.Alloc]bool{}
		seenFV := map[*ssa.FreeVar]bool{}
		calls := false
		for b := range li.blocks {
			for _, in := range b.Instrs {
				if s, ok := in.(*ssa.Store); ok {
					if a, ok := s.Addr.(*ssa.Alloc); ok && !seen[a] {
						seen[a] = true
						li.stored = append(li.stored, a)
					}
					if g, ok := s.Addr.(*ssa.Global); ok {
						li.globals[g] = true
					}
					if fv, ok := s.Addr.(*ssa.FreeVar); ok && !seenFV[fv] {
						seenFV[fv] = true
						li.storedFV = append(li.storedFV, fv)
					}
				}
				switch c := in.(type) {
				case *ssa.Call:
					if _, isB := c.Call.Value.(*ssa.Builtin); !isB {
						calls = true
					}
				case *ssa.Defer, *ssa.Go:
					calls = true
				}
				if a, ok := in.(*ssa.Alloc); ok && !seen[a] {
					// a variable declared inside the loop body is re-initialised each iteration
					seen[a] = true
					li.stored = append(li.stored, a)
				}
				ex.p.touchInstr(in, li.touch, li.globals)
			}
		}
		if calls {
			// a call may write the variables whose address has escaped
			for _, a := range escaping {
				if !seen[a] {
					seen[a] = true
					li.stored = append(li.stored, a)
				}
			}
		}
		sort.Slice(li.stored, func(a, b int) bool { return li.stored[a].Pos() < li.stored[b].Pos() })
	}
}

func blockPos(b *ssa.BasicBlock) token.Pos {
	for _, in := range b.Instrs {
		if in.Pos().IsValid() {
			return in.Pos()
		}
	}
	return token.NoPos
}

func (ex *Exec) loopContract(li *loopInfo) *LoopContract {
	if li.lc != nil {
		return li.lc
	}
	if ex.fc == nil || li.fn == ex.fn {
		return nil
	}
	// a loop of a helper executed inline: if the function under contract has exactly one
	// written loop contract that none of its own loops took, and the helper has exactly one
	// loop, the loop was moved into the helper and the clauses move with it (they are proved
	// there like anywhere else)
	var free []*LoopContract
	for k, lc := range ex.fc.Loops {
		taken := false
		for _, l2 := range ex.loops {
			if l2.lc == lc || (l2.fn == ex.fn && l2.ordinal == k) {
				taken = true
			}
		}
		if !taken {
			free = append(free, lc)
		}
	}
	n := 0
	for _, l2 := range ex.loops {
		if l2.fn == li.fn {
			n++
		}
	}
	if len(free) == 1 && n == 1 {
		li.lc = free[0]
		li.ordinal = free[0].Ordinal
		return li.lc
	}
	return nil
}

// runBlock executes from instruction index i of block b.
func (ex *Exec) runBlock(st *State, b *ssa.BasicBlock, i int) {
	if st.dead {
		return
	}
	if i == 0 {
		if li := ex.loops[b]; li != nil {
			if !ex.atLoopHeader(st, li) {
				return
			}
		}
	}
	for ; i < len(b.Instrs); i++ {
		ex.stepBudget--
		if ex.stepBudget < 0 {
			ex.failObl("subset", "budget", "symbolic execution step budget exhausted", nil, b.Instrs[i])
			return
		}
		in := b.Instrs[i]
		switch v := in.(type) {
		case *ssa.If:
			c := ex.val(st, v.Cond)
			if c.K != KScalar {
				panic(unsupported("if on non-scalar"))
			}
			if c.T.S == "true" {
				ex.goTo(st, b, b.Succs[0])
				return
			}
			if c.T.S == "false" {
				ex.goTo(st, b, b.Succs[1])
				return
			}
			s1 := st.clone()
			s1.assume(c.T)
			st.assume(Not(c.T))
			ex.goTo(s1, b, b.Succs[0])
			ex.goTo(st, b, b.Succs[1])
			return
		case *ssa.Jump:
			ex.goTo(st, b, b.Succs[0])
			return
		case *ssa.Return:
			ex.atReturn(st, v)
			return
		case *ssa.Panic:
			ex.oblige(st, "panic", fmt.Sprintf("unreachable@%s", ex.posOf(v)), TFalse, ex.fnTags(), v, "explicit panic must be unreachable")
			return
		default:
			var forks []*State
			if ex.lenient {
				func() {
					defer func() {
						if r := recover(); r != nil {
							if val, ok := in.(ssa.Value); ok {
								st.vals[val] = SV{K: KOpaque, Why: fmt.Sprint(r)}
							}
							if ex.reportLenient {
								// an initialiser the generator cannot evaluate: reported, and the
								// variable it feeds stays unknown, but the rest of init is still executed
								ex.failObl("subset", fmt.Sprintf("initialiser@%s", ex.posOf(in)), fmt.Sprint(r), []string{"C12", "C13", "C14"}, in)
							}
						}
					}()
					forks = ex.step(st, in)
				}()
			} else {
				forks = ex.step(st, in)
			}
			if forks != nil {
				// instruction forked the state (call with split, append, ...): continue each
				for _, s := range forks {
					ex.runBlock(s, b, i+1)
				}
				return
			}
			if st.dead {
				return
			}
		}
	}
}

func (ex *Exec) fnTags() []string {
	// properties served by ghost lemma functions are given by their ensures tags
	if ex.fc == nil {
		return nil
	}
	seen := map[string]bool{}
	var tags []string
	for _, e := range ex.fc.Ensures {
		for _, t := range e.Tags {
			if !seen[t] {
				seen[t] = true
				tags = append(tags, t)
			}
		}
	}
	return tags
}

func (ex *Exec) goTo(st *State, from, to *ssa.BasicBlock) {
	ex.paths++
	if ex.paths > 4000 {
		ex.failObl("subset", "paths", "too many paths", nil, nil)
		st.dead = true
		return
	}
	st.pred = from
	// leaving a loop?
	for h, li := range ex.loops {
		if li.blocks[from] && !li.blocks[to] {
			_ = h
			if li.fn != ex.fn && li.lc == nil {
				break // a helper's own loop is not an anchor of the caller's contract
			}
			for _, s := range ex.applySplits(st, fmt.Sprintf("loop %d exit", li.ordinal), nil) {
				ex.runBlock(s, to, 0)
			}
			return
		}
	}
	ex.runBlock(st, to, 0)
}

// atLoopHeader returns false if the path ends here (back edge).
func (ex *Exec) atLoopHeader(st *State, li *loopInfo) bool {
	ex.curLoop = li
	defer func() { ex.curLoop = nil }()
	lc := ex.loopContract(li)
	label := li.label()
	if li.fn != ex.fn && li.lc == nil {
		label = shortName(ex.p.contractName(li.fn)) + "/" + label
	}
	first := st.loops[li.header] == nil || !li.blocks[st.pred]
	var hdrInstr ssa.Instruction
	if len(li.header.Instrs) > 0 {
		hdrInstr = li.header.Instrs[0]
	}
	// a loop without written clauses: in the function under contract that is a
	// missing invariant; in code executed inline the clauses are guessed from the
	// loop's shape (infer.go) and proved like written ones
	var inf *inferredLoop
	if lc == nil {
		inf = ex.inferLoop(li)
		lc = &LoopContract{Ordinal: li.ordinal}
	}
	assigns := func(pre *State) *assignSet {
		if inf != nil {
			return ex.inferredAssigns(pre, li, inf)
		}
		return ex.loopAssigns(pre, lc)
	}
	if first {
		pre := st.clone()
		for _, u := range lc.Unfold {
			ex.unfoldStep(st, u, &specCtx{mode: "loop"})
		}
		for _, inv := range lc.Invariants {
			g := ex.specBool(st, inv.Expr, &specCtx{mode: "loop"})
			ex.oblige(st, "inv-entry", label+"/"+inv.Label, g, inv.Tags, hdrInstr, inv.Src)
		}
		// the global invariants are implicit loop invariants
		ginvBefore := map[string]string{}
		for _, inv := range ex.loopGlobalInvariants() {
			t := ex.specBool(st, inv.Expr, &specCtx{mode: "exitinv"})
			ginvBefore[inv.Label] = t.S
			if t.S != ex.entryInv[inv.Label] {
				ex.oblige(st, "inv-entry", label+"/global/"+inv.Label, t, inv.Tags, hdrInstr, inv.Src)
			}
		}
		// havoc
		as := assigns(pre)
		for a := range ex.loopStoredCells(st, li) {
			if sv, ok := st.cells[a]; ok {
				st.cells[a] = ex.havocSV(st, "h_"+a.Comment, sv, a)
			}
		}
		ex.havocHeap(st, pre, li.touch, li.globals, as, "lp")
		for _, inv := range lc.Invariants {
			st.assume(ex.specBool(st, inv.Expr, &specCtx{mode: "loop"}))
		}
		if inf != nil {
			for _, t := range ex.inferredInvariants(st, pre, li, inf) {
				st.assume(t)
			}
		}
		for _, inv := range ex.loopGlobalInvariants() {
			t := ex.specBool(st, inv.Expr, &specCtx{mode: "exitinv"})
			if t.S != ginvBefore[inv.Label] {
				st.assume(t)
			}
		}
		lf := &loopFrame{pre: pre}
		if lc.Decreases != nil {
			v := ex.spec(st, lc.Decreases.Expr, &specCtx{mode: "loop"})
			lf.variant = ex.define(st, "variant", v.T)
			lf.hasVar = true
		} else if inf != nil {
			if v, ok := ex.inferredVariant(st, li, inf); ok {
				lf.variant = ex.define(st, "variant", v)
				lf.hasVar = true
			}
		}
		for _, u := range lc.Unfold {
			ex.unfoldStep(st, u, &specCtx{mode: "loop"})
		}
		lf.head = st.clone()
		st.loops[li.header] = lf
		return true
	}
	// back edge
	lf := st.loops[li.header]
	for _, u := range lc.Unfold {
		ex.unfoldStep(st, u, &specCtx{mode: "loop"})
	}
	ex.assumeUses(st, lc.Uses, &specCtx{mode: "loop", headState: lf.head})
	for _, inv := range lc.Invariants {
		g := ex.specBool(st, inv.Expr, &specCtx{mode: "loop"})
		ex.oblige(st, "inv-preserved", label+"/"+inv.Label, g, inv.Tags, hdrInstr, inv.Src)
	}
	if inf != nil {
		for i, t := range ex.inferredInvariants(st, lf.pre, li, inf) {
			ex.oblige(st, "inv-preserved", fmt.Sprintf("%s/counter-bound%d", label, i+1), t, nil, hdrInstr, "guessed: a loop counter moves in one direction and stays within its exit bound")
		}
	}
	for _, inv := range ex.loopGlobalInvariants() {
		t := ex.specBool(st, inv.Expr, &specCtx{mode: "exitinv"})
		h := ex.specBool(lf.head, inv.Expr, &specCtx{mode: "exitinv"})
		if t.S != h.S {
			ex.oblige(st, "inv-preserved", label+"/global/"+inv.Label, t, inv.Tags, hdrInstr, inv.Src)
		}
	}
	if lf.hasVar {
		var v Term
		src := "guessed: bound - counter of the loop's exit test"
		if lc.Decreases != nil {
			v = ex.spec(st, lc.Decreases.Expr, &specCtx{mode: "loop"}).T
			src = lc.Decreases.Src
		} else {
			v, _ = ex.inferredVariant(st, li, inf)
		}
		ex.oblige(st, "variant", label+"/decreases", And(Ge(lf.variant, IntLit(0)), Lt(v, lf.variant)), []string{"C14"}, hdrInstr, src)
	} else {
		ex.failObl("variant", label+"/missing", "loop without decreases clause", []string{"C14"}, hdrInstr)
	}
	// loop frame: everything outside the declared write set is as before the loop
	ex.frameObligations(st, lf.pre, assigns(lf.pre), "loop-frame", label, hdrInstr, nil)
	return false
}

// assumeUses adds hand-instantiated instances of prelude axiom schemas
// (bsubSplit, bsubNest, rsegSplit, ...: true facts about byte sequences). An
// instance that mentions a variable not in scope on this path is skipped.
func (ex *Exec) assumeUses(st *State, uses []ast.Expr, ctx *specCtx) {
	for _, u := range uses {
		schema := false
		if call, ok := u.(*ast.CallExpr); ok {
			if id, ok := call.Fun.(*ast.Ident); ok {
				switch id.Name {
				case "bsubSplit", "bsubNest", "bsubFull", "rsegSplit":
					schema = true
				}
			}
		}
		if !schema {
			ex.failObl("contract", "use-not-a-schema", "use: only axiom-schema instances (bsubSplit, bsubNest, bsubFull, rsegSplit) may be assumed: "+exprString(u), nil, nil)
			continue
		}
		func() {
			defer func() {
				if r := recover(); r != nil {
					if _, ok := r.(unsupported); !ok {
						panic(r)
					}
				}
			}()
			st.assume(ex.specBool(st, u, ctx))
		}()
	}
}

// loopGlobalInvariants: the global invariants are implicit invariants of
// every loop, except inside a builder literal passed to Once.Do, whose own
// invariant is re-established only when Do marks the Once done.
func (ex *Exec) loopGlobalInvariants() []*Clause {
	if ex.fn != nil && ex.p.onceOfLiteral(ex.fn) != nil {
		return nil
	}
	return ex.p.Contracts.Invariants
}

func (ex *Exec) loopAssigns(pre *State, lc *LoopContract) *assignSet {
	as := &assignSet{refs: map[string][]Term{}, globals: map[string]bool{}, all: map[string]bool{}}
	if ex.entry != nil {
		as.entryBound = ex.entry.next
	}
	for _, e := range lc.Assigns {
		ex.addAssign(pre, as, e, &specCtx{mode: "loop"})
	}
	return as
}

func (ex *Exec) havocSV(st *State, base string, old SV, a *ssa.Alloc) SV {
	t := a.Type().(*types.Pointer).Elem()
	if old.K == KSlice && old.Why == "bytearray" {
		// the block of a local byte array never moves; its bytes live in the byte heap
		return old
	}
	c := classify(t)
	if c.K == KOpaque {
		return old
	}
	if c.What == "bigint" || c.What == "map" || c.What == "iface" {
		v := ex.fresh(base, SInt)
		st.assume(Ge(v, IntLit(0)))
		st.assume(Lt(v, st.next))
		return Scalar(v)
	}
	if c.K == KSlice {
		sv := ex.freshOfType(st, base, t, false)
		st.assume(Lt(sv.Ref, st.next))
		return sv
	}
	return ex.freshOfType(st, base, t, false)
}

// ---------------------------------------------------------------------------
// frames

type assignSet struct {
	refs       map[string][]Term // heap map -> refs that may change
	globals    map[string]bool
	all        map[string]bool // heap map -> anything may change (Done[*])
	entryBound Term            // loops: the function's entry allocation counter
}

func (ex *Exec) addAssign(st *State, as *assignSet, e interface{}, ctx *specCtx) {
	ex.addAssignExpr(st, as, e, ctx)
}

// havocHeap replaces every touched heap map by a fresh one that agrees with
// the old one on all pre-existing references outside the write set.
func (ex *Exec) havocHeap(st, pre *State, touch map[string]bool, globals map[*ssa.Global]bool, as *assignSet, tag string) {
	if touch["next"] {
		n := ex.fresh("next_"+tag, SInt)
		st.assume(Ge(n, pre.next))
		st.next = n
	}
	for _, h := range heapMaps {
		if !touch[h] {
			continue
		}
		nm := ex.fresh(h+"_"+tag, heapSort[h])
		st.heap[h] = nm
		st.assume(ex.frameFormula(pre, h, pre.heap[h], nm, as, true))
	}
	for g := range globals {
		if _, ok := st.globals[g]; !ok {
			continue
		}
		if as != nil && !as.globals[g.Name()] && !as.globals["*"] {
			// declared unchanged: keep; the frame obligation checks it
			continue
		}
		st.globals[g] = ex.freshOfType(st, "g_"+g.Name()+"_"+tag, g.Type().(*types.Pointer).Elem(), false)
	}
}

// frameFormula: forall r < next_pre (r not in W) -> new[r] = old[r]
func (ex *Exec) frameFormula(pre *State, h string, oldM, newM Term, as *assignSet, asAssumption bool) Term {
	if as != nil && as.all[h] {
		return TTrue
	}
	r := T(SInt, "r")
	var hyp []Term
	if h == "Done" {
		// keys are Once identities, not allocated references
	} else if as != nil && as.entryBound.S != "" {
		// loop frames protect what existed when the function was entered; objects the
		// function itself allocated before the loop are covered by the invariants instead
		hyp = append(hyp, Lt(r, as.entryBound))
	} else {
		hyp = append(hyp, Lt(r, pre.next))
	}
	if as != nil {
		for _, w := range as.refs[h] {
			hyp = append(hyp, Not(Eq(r, w)))
		}
	}
	body := Implies(And(hyp...), Eq(Select(newM, r), Select(oldM, r)))
	if asAssumption {
		return Forall([]Term{r}, body, Select(newM, r))
	}
	return Forall([]Term{r}, body)
}

func (ex *Exec) frameObligations(st, pre *State, as *assignSet, kind, label string, instr ssa.Instruction, tags []string) {
	if tags == nil {
		tags = []string{"C13"}
	}
	for _, h := range heapMaps {
		if st.heap[h].S == pre.heap[h].S {
			continue
		}
		g := ex.frameFormula(pre, h, pre.heap[h], st.heap[h], as, false)
		ex.oblige(st, kind, label+"/"+h, g, tags, instr, "unchanged outside assigns: "+h)
	}
	var gs []*ssa.Global
	for g := range st.globals {
		gs = append(gs, g)
	}
	sort.Slice(gs, func(i, j int) bool { return gs[i].Name() < gs[j].Name() })
	for _, g := range gs {
		a, b := st.globals[g], pre.globals[g]
		if as != nil && (as.globals[g.Name()] || as.globals["*"]) {
			continue
		}
		if a.K == KScalar && b.K == KScalar && a.T.S != b.T.S {
			ex.oblige(st, kind, label+"/global/"+g.Name(), Eq(a.T, b.T), tags, instr, "global unchanged: "+g.Name())
		}
	}
}

// ---------------------------------------------------------------------------
// return

func (ex *Exec) atReturn(st *State, ret *ssa.Return) {
	ex.retCount++
	site := fmt.Sprintf("return@%s", ex.posOf(ret))
	var results []SV
	for _, r := range ret.Results {
		results = append(results, ex.val(st, r))
	}
	if ex.collector != nil {
		// returning from an inlined helper: hand the state back to the call site
		*ex.collector = append(*ex.collector, inlineRet{st, results})
		return
	}
	ctx := &specCtx{mode: "exit", results: results}
	if ex.p.returnCovers && !ex.isInit {
		// reachability of this return under everything assumed on the way (thorough tier):
		// a refuted path is either dead code or a contradiction among assumptions
		cov := &Obligation{Name: ex.uniqueName(ex.name + "/cover-return/" + site), Fn: ex.name, Kind: "cover-return", Expect: "sat", Goal: "return reachable", Pos: ex.posOf(ret)}
		cov.Script = ex.script(st, TTrue)
		ex.obls = append(ex.obls, cov)
	}
	if ex.fc != nil {
		ex.assumeUses(st, ex.fc.Uses, ctx)
	}
	if ex.isInit {
		if ex.reportLenient || !ex.lenient {
			ex.p.recordInit(ex, st)
		}
		return
	}
	if ex.fc != nil {
		for _, g := range ex.fc.Ghosts {
			name, gsort := ghostNameSort(g.Name)
			ctx.ghosts = appendGhost(ctx.ghosts, name, ex.ghostValue(st, g, gsort, ctx))
		}
		for _, e := range ex.fc.Ensures {
			g := ex.specBool(st, e.Expr, ctx)
			ex.oblige(st, "ensures", e.Label+"@"+site, g, e.Tags, ret, e.Src)
		}
	}
	// global invariants re-established; a builder literal passed to O.Do is
	// judged in the state Do leaves behind (its Once marked done)
	ist := st
	if once := ex.p.onceOfLiteral(ex.fn); once != nil {
		ist = st.clone()
		ist.heap["Done"] = Store(ist.heap["Done"], IntLit(int64(ex.p.onceID(once))), TTrue)
	}
	for _, inv := range ex.p.Contracts.Invariants {
		t := ex.specBool(ist, inv.Expr, &specCtx{mode: "exitinv"})
		if t.S == ex.entryInv[inv.Label] {
			continue
		}
		ex.oblige(ist, "global-inv", inv.Label+"@"+site, t, append([]string{"C13"}, inv.Tags...), ret, inv.Src)
	}
	// frame
	as := &assignSet{refs: map[string][]Term{}, globals: map[string]bool{}, all: map[string]bool{}}
	if ex.fc != nil {
		for _, e := range ex.fc.Assigns {
			ex.addAssign(ex.entry, as, e, &specCtx{mode: "entry"})
		}
	}
	ex.frameObligations(st, ex.entry, as, "frame", site, ret, nil)
}

// ghostValue evaluates a ghost output at a return; where its defining
// expression has no meaning on this path (a local that was never declared, a
// callee that was not called) the ghost is an arbitrary value of its sort.
func (ex *Exec) ghostValue(st *State, g LetDef, gsort string, ctx *specCtx) (sv SV) {
	defer func() {
		if r := recover(); r != nil {
			if _, ok := r.(unsupported); ok && gsort != "" {
				sv = Scalar(ex.fresh("ghost_undefined", sortByName(gsort)))
				return
			}
			panic(r)
		}
	}()
	return ex.spec(st, g.Expr, ctx)
}

type inlineRet struct {
	st      *State
	results []SV
}

type ghostVal struct {
	name string
	sv   SV
}

func appendGhost(gs []ghostVal, name string, sv SV) []ghostVal { return append(gs, ghostVal{name, sv}) }

func ghostNameSort(decl string) (string, string) {
	f := strings.Fields(decl)
	if len(f) == 2 {
		return f[0], f[1]
	}
	return decl, ""
}

// ---------------------------------------------------------------------------
// splits

func (ex *Exec) applySplits(st *State, anchor string, instr ssa.Instruction) []*State {
	states := []*State{st}
	if ex.fc == nil {
		return states
	}
	mode := "loop"
	if anchor == "entry" {
		mode = "entry"
	}
	if ex.fn == nil {
		mode = "lemma"
	}
	for si, sd := range ex.fc.Splits {
		if sd.Anchor != anchor {
			continue
		}
		var out []*State
		for _, s := range states {
			ctx := &specCtx{mode: mode}
			x := ex.spec(s, sd.Expr, ctx).T
			var alts []Term
			for _, v := range sd.Values {
				alts = append(alts, Eq(x, IntLit(v)))
			}
			ex.oblige(s, "split-cover", fmt.Sprintf("split%d@%s", si+1, strings.ReplaceAll(anchor, " ", "")), Or(alts...), nil, instr, sd.Src)
			for _, v := range sd.Values {
				n := s.clone()
				n.assume(Eq(x, IntLit(v)))
				for _, u := range sd.Unfold {
					ex.unfoldGround(n, u, ctx, sd.Src, v)
				}
				out = append(out, n)
			}
		}
		states = out
	}
	// proof cuts: proved, then assumed, in order
	for _, ad := range ex.fc.Asserts {
		if ad.Anchor != anchor {
			continue
		}
		for _, s := range states {
			g := ex.specBool(s, ad.Clause.Expr, &specCtx{mode: mode})
			ex.oblige(s, "assert", ad.Clause.Label+"@"+strings.ReplaceAll(anchor, " ", ""), g, ad.Clause.Tags, instr, ad.Clause.Src)
			s.assume(g)
		}
	}
	return states
}
