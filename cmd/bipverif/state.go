package main

// Symbolic values and state.

import (
	"fmt"
	"go/types"
	"sort"
	"strings"

	"golang.org/x/tools/go/ssa"
)

type Kind int

const (
	KScalar Kind = iota // Int Bool Str Err Any, refs (as Int)
	KSlice
	KTuple
	KPtr
	KFunc
	KArray // array value as SMT array term
	KUnit
	KStruct // value of a struct type declared in the package under test
	KOpaque // unsupported value (using it fails an obligation)
)

type PtrKind int

const (
	PCell PtrKind = iota
	PGlobal
	PSliceElem
	PCellElem   // element of an array held in a local cell
	PGlobalElem // element of a global array
	PExt        // address of a variable of another package
	PCellField  // field of a struct held in a local cell
	PExtField   // field of a struct of a dependency package, reached through a pointer
)

type Pointer struct {
	Kind   PtrKind
	Cell   *ssa.Alloc
	Global *ssa.Global
	Base   *SV // slice (PSliceElem)
	Idx    Term
	Field  int
	Obj    Term       // PExtField: the pointer (reference)
	FType  types.Type // PExtField: field type
}

type SV struct {
	K      Kind
	T      Term // scalar or array term
	Ref    Term // slice: backing reference (Int)
	Off    Term
	Len    Term
	Cap    Term
	Elem   string     // slice element class: "byte" "string" "any" "other"
	Cell   *ssa.Alloc // slice backed by a local array cell (varargs)
	Tuple  []SV
	Ptr    *Pointer
	Fn     *ssa.Function
	Why    string         // KOpaque: reason
	Fields []SV           // KStruct
	Elems  map[int64]Term // KArray held in a local cell: elements stored at literal indices
}

func Scalar(t Term) SV { return SV{K: KScalar, T: t} }

// heap map names
var heapMaps = []string{"BigVal", "BMem", "SMem", "MDom", "MVal", "HAcc", "HKind", "RPos", "Done"}

var heapSort = map[string]string{
	"BigVal": SAII, "BMem": SAIB, "SMem": SAIAIS, "MDom": SAIASB, "MVal": SAIASI,
	"HAcc": SAIB, "HKind": SAII, "RPos": SAII, "Done": SAIBo,
}

type loopFrame struct {
	pre     *State
	head    *State // state right after havoc+assume
	variant Term
	hasVar  bool
}

type State struct {
	pc      []Term
	cells   map[*ssa.Alloc]SV
	vals    map[ssa.Value]SV
	heap    map[string]Term
	next    Term
	globals map[*ssa.Global]SV // mutable (guarded) globals only
	loops   map[*ssa.BasicBlock]*loopFrame
	defers  []deferred
	ghosts  map[string]SV // ghost outputs of calls made so far: "callee_name"
	calls   map[string]int
	splits  map[int]bool
	pred    *ssa.BasicBlock
	dead    bool
	notes   []string
}

type deferred struct {
	call *ssa.Defer
	args []SV
	fn   SV // deferred function literal with its bindings
}

func (s *State) clone() *State {
	n := &State{
		defers:  append([]deferred(nil), s.defers...),
		pc:      append([]Term(nil), s.pc...),
		cells:   make(map[*ssa.Alloc]SV, len(s.cells)),
		vals:    make(map[ssa.Value]SV, len(s.vals)),
		heap:    make(map[string]Term, len(s.heap)),
		next:    s.next,
		globals: make(map[*ssa.Global]SV, len(s.globals)),
		loops:   make(map[*ssa.BasicBlock]*loopFrame, len(s.loops)),
		ghosts:  make(map[string]SV, len(s.ghosts)),
		calls:   make(map[string]int, len(s.calls)),
		splits:  make(map[int]bool, len(s.splits)),
		pred:    s.pred,
	}
	for k, v := range s.cells {
		n.cells[k] = v
	}
	for k, v := range s.vals {
		n.vals[k] = v
	}
	for k, v := range s.heap {
		n.heap[k] = v
	}
	for k, v := range s.globals {
		n.globals[k] = v
	}
	for k, v := range s.loops {
		n.loops[k] = v
	}
	for k, v := range s.ghosts {
		n.ghosts[k] = v
	}
	for k, v := range s.calls {
		n.calls[k] = v
	}
	for k, v := range s.splits {
		n.splits[k] = v
	}
	return n
}

func (s *State) assume(t Term) {
	if t.S == "true" {
		return
	}
	s.pc = append(s.pc, t)
}

// ---------------------------------------------------------------------------

// typeClass maps a Go type to the way it is modelled.
type TClass struct {
	K      Kind
	Sort   string // scalar sort
	Bits   int    // integer width (0 = not an integer)
	Signed bool
	Elem   string // slice elem class
	What   string // "int" "bool" "string" "error" "any" "bigint" "map" "iface" "slice" "func" "ptr" "array" "tuple" "struct"
}

func isNamed(t types.Type, pkg, name string) bool {
	n, ok := t.(*types.Named)
	if !ok {
		return false
	}
	o := n.Obj()
	return o.Name() == name && o.Pkg() != nil && o.Pkg().Path() == pkg
}

func classify(t types.Type) TClass {
	if t == nil {
		return TClass{K: KUnit, What: "unit"}
	}
	if isNamed(t, "math/big", "Int") {
		return TClass{K: KOpaque, What: "bigstruct"}
	}
	switch u := t.Underlying().(type) {
	case *types.Basic:
		info := u.Info()
		switch {
		case info&types.IsBoolean != 0:
			return TClass{K: KScalar, Sort: SBool, What: "bool"}
		case info&types.IsString != 0:
			return TClass{K: KScalar, Sort: SStr, What: "string"}
		case info&types.IsInteger != 0:
			bits, signed := 64, true
			switch u.Kind() {
			case types.Int8:
				bits = 8
			case types.Int16:
				bits = 16
			case types.Int32:
				bits = 32
			case types.Int64, types.Int, types.UntypedInt, types.UntypedRune:
				bits = 64
			case types.Uint8:
				bits, signed = 8, false
			case types.Uint16:
				bits, signed = 16, false
			case types.Uint32:
				bits, signed = 32, false
			case types.Uint64, types.Uint, types.Uintptr:
				bits, signed = 64, false
			}
			return TClass{K: KScalar, Sort: SInt, Bits: bits, Signed: signed, What: "int"}
		case u.Kind() == types.UntypedNil:
			return TClass{K: KScalar, Sort: SInt, What: "nil"}
		}
		return TClass{K: KOpaque, What: "basic:" + u.String()}
	case *types.Pointer:
		if isNamed(u.Elem(), "math/big", "Int") {
			return TClass{K: KScalar, Sort: SInt, What: "bigint"}
		}
		if n, ok := u.Elem().(*types.Named); ok {
			if _, isStruct := n.Underlying().(*types.Struct); isStruct && n.Obj().Pkg() != nil && !strings.HasPrefix(n.Obj().Pkg().Path(), modPath) {
				// pointer to a struct of a dependency package: an opaque reference
				return TClass{K: KScalar, Sort: SInt, What: "iface"}
			}
		}
		return TClass{K: KPtr, What: "ptr"}
	case *types.Map:
		return TClass{K: KScalar, Sort: SInt, What: "map"}
	case *types.Interface:
		if types.Identical(t, types.Universe.Lookup("error").Type()) {
			return TClass{K: KScalar, Sort: SErr, What: "error"}
		}
		if u.NumMethods() == 0 {
			return TClass{K: KScalar, Sort: SAny, What: "any"}
		}
		return TClass{K: KScalar, Sort: SInt, What: "iface"}
	case *types.Slice:
		return TClass{K: KSlice, Elem: elemClass(u.Elem()), What: "slice"}
	case *types.Signature:
		return TClass{K: KFunc, What: "func"}
	case *types.Array:
		return TClass{K: KArray, Sort: arraySortFor(u.Elem()), What: "array"}
	case *types.Tuple:
		return TClass{K: KTuple, What: "tuple"}
	case *types.Struct:
		if n, ok := t.(*types.Named); ok && n.Obj().Pkg() != nil && strings.HasPrefix(n.Obj().Pkg().Path(), modPath) {
			return TClass{K: KStruct, What: "struct"}
		}
		return TClass{K: KOpaque, What: "struct"}
	}
	return TClass{K: KOpaque, What: t.String()}
}

func elemClass(t types.Type) string {
	c := classify(t)
	switch {
	case c.What == "int" && c.Bits == 8 && !c.Signed:
		return "byte"
	case c.What == "string":
		return "string"
	case c.What == "any":
		return "any"
	}
	return "other"
}

func arraySortFor(elem types.Type) string {
	c := classify(elem)
	switch c.Sort {
	case SInt:
		return SAII
	case SStr:
		return SAIS
	case SAny:
		return SAIA
	}
	return SAII
}

func sortedKeys(m map[string]bool) []string {
	var ks []string
	for k := range m {
		ks = append(ks, k)
	}
	sort.Strings(ks)
	return ks
}

func smtName(s string) string {
	var b strings.Builder
	for _, r := range s {
		switch {
		case r >= 'a' && r <= 'z', r >= 'A' && r <= 'Z', r >= '0' && r <= '9', r == '_':
			b.WriteRune(r)
		default:
			fmt.Fprintf(&b, "_")
		}
	}
	return b.String()
}
