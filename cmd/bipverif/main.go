package main

import (
	"encoding/json"
	"flag"
	"fmt"
	"golang.org/x/tools/go/ssa"
	"os"
	"path/filepath"
	"sort"
	"strings"
	"sync"
	"time"
)

var (
	verifDir = envOr("VERIF_DIR", "/verif")
	repoDir  = envOr("VERIF_REPO", "/repo")
)

func envOr(k, d string) string {
	if v := os.Getenv(k); v != "" {
		return v
	}
	return d
}

func main() {
	if len(os.Args) < 2 {
		fmt.Fprintln(os.Stderr, "usage: bipverif vc|check|ground|frame ...")
		os.Exit(2)
	}
	switch os.Args[1] {
	case "vc":
		cmdVC(os.Args[2:])
	case "check":
		cmdCheck(os.Args[2:])
	case "engine-selftest":
		res, err := runEngineSelftest()
		js, _ := json.MarshalIndent(res, "", " ")
		fmt.Println(string(js))
		if err != nil {
			fmt.Println(err)
			os.Exit(1)
		}
	case "engine-selftest-inner":
		cmdEngineInner()
	case "tagaudit":
		cmdTagAudit()
	case "prelude-probe":
		// prints the probed-consistency script (debugging view of the vacuity guard)
		p, err := loadAll()
		if err != nil {
			fmt.Fprintln(os.Stderr, "load:", err)
			os.Exit(2)
		}
		native := len(os.Args) > 2 && os.Args[2] == "native"
		fmt.Print(p.prelude(native) + preludeProbe(p.prelude(native)) + "(check-sat)\n")
	case "matrix":
		cmdMatrix(os.Args[2:])
	case "locals":
		// records (type, ordinal) of every local of every function under contract on the current tree
		p, err := loadAll()
		if err != nil {
			fmt.Fprintln(os.Stderr, err)
			os.Exit(2)
		}
		tab := map[string]map[string]localType{}
		for _, f := range p.allFunctions() {
			n := p.contractName(f.fn)
			if p.Contracts.Funcs[n] != nil {
				tab[n] = localsOf(f.fn)
			}
		}
		data, _ := json.MarshalIndent(tab, "", " ")
		_ = os.WriteFile(filepath.Join(verifDir, "contracts", "locals.json"), append(data, '\n'), 0o644)
	case "replay":
		cmdReplay(os.Args[2:])
	case "refgen":
		p, err := loadAll()
		if err != nil {
			fmt.Fprintln(os.Stderr, err)
			os.Exit(2)
		}
		if err := p.refgen(filepath.Join(verifDir, "ref", "wordlists")); err != nil {
			fmt.Fprintln(os.Stderr, err)
			os.Exit(2)
		}
	default:
		fmt.Fprintln(os.Stderr, "unknown command", os.Args[1])
		os.Exit(2)
	}
}

// loadAll loads the program and its contracts.
func loadAll() (*Program, error) {
	t0 := time.Now()
	p, err := LoadProgram(repoDir)
	if err != nil {
		return nil, err
	}
	files := contractFiles(repoDir)
	// contracts of dependency functions whose bodies are verified too (they are not part of the repository)
	m, _ := filepath.Glob(filepath.Join(verifDir, "contracts", "*_contracts.go"))
	files = append(files, m...)
	c, err := LoadContracts(files)
	if err != nil {
		return nil, err
	}
	p.Contracts = c
	if data, err := os.ReadFile(filepath.Join(verifDir, "contracts", "locals.json")); err == nil {
		_ = json.Unmarshal(data, &p.localsTable)
	}
	p.loadSecs = time.Since(t0).Seconds()
	return p, nil
}

// generate runs the VC generator over init and every function of the package
// that has a contract (and reports functions without one).
func (p *Program) generate(only string) []*Obligation {
	var obls []*Obligation
	if only == "" || only == "init" {
		obls = append(obls, p.runInit()...)
	} else {
		p.runInit()
	}
	var pendingHelpers []string
	var fns []string
	byName := map[string]*ssaFn{}
	for _, f := range p.allFunctions() {
		n := p.contractName(f.fn)
		byName[n] = f
		fns = append(fns, n)
	}
	sort.Strings(fns)
	seen := map[string]bool{}
	for _, n := range fns {
		seen[n] = true
		if only != "" && only != n {
			continue
		}
		f := byName[n]
		fc := p.Contracts.Funcs[n]
		if fc == nil {
			if f.verifOnly {
				continue
			}
			if f.fn.Pkg == p.Tool && f.fn.Name() == "main" {
				// the generator's main ranges over a map: not under contract, observed by the bounded run only
				continue
			}
			if (f.fn.Object() == nil || !f.fn.Object().Exported()) && inlinable(f.fn) {
				// an unexported helper or a function literal: verified where it is called (executed inline there)
				pendingHelpers = append(pendingHelpers, n)
				continue
			}
			tags := []string{"C14"}
			if f.fn.Pkg == p.Tool {
				tags = []string{"C17"}
			}
			obls = append(obls, &Obligation{Name: n + "/contract/missing", Fn: n, Kind: "contract", Failed: true,
				Reason: "function has no contract", Expect: "unsat", Tags: tags})
			continue
		}
		ex := p.newExec(f.fn, fc)
		ex.ghostFn = f.verifOnly
		ex.run()
		obls = append(obls, ex.obls...)
	}
	// helpers without contract must have been inlined somewhere, otherwise nothing verified them
	for _, n := range pendingHelpers {
		if !p.inlined[n] && only == "" {
			obls = append(obls, &Obligation{Name: n + "/contract/missing", Fn: n, Kind: "contract", Failed: true,
				Reason: "function has no contract and is not called from a verified function", Expect: "unsat", Tags: []string{"C14"}})
		}
	}
	// lemmas and orphans
	for _, n := range p.Contracts.Order {
		fc := p.Contracts.Funcs[n]
		if only != "" && only != n {
			continue
		}
		if fc.Lemma {
			obls = append(obls, p.runLemma(fc)...)
			continue
		}
		if f := p.depFunction(n); f != nil && !seen[n] {
			seen[n] = true
			if only == "" || only == n {
				ex := p.newExec(f, fc)
				ex.run()
				obls = append(obls, ex.obls...)
			}
			continue
		}
		if !seen[n] && n != "init" {
			obls = append(obls, &Obligation{Name: n + "/contract/orphan", Fn: n, Kind: "contract", Failed: true,
				Reason: "contract names a function that does not exist", Expect: "unsat"})
		}
	}
	return obls
}

func solveAll(obls []*Obligation, timeoutS int, all bool, workDir string) {
	var wg sync.WaitGroup
	sem := make(chan struct{}, 16)
	for _, o := range obls {
		if o.Trivial || o.Failed || o.Script == "" {
			continue
		}
		wg.Add(1)
		go func(o *Obligation) {
			defer wg.Done()
			sem <- struct{}{}
			defer func() { <-sem }()
			file := filepath.Join(workDir, smtName(o.Name)+".smt2")
			o.Result = Solve(o.Script, file, timeoutS, all, false)
			if o.Expect == "unsat" && o.Result.Status != "unsat" && o.Result.Status != "sat" {
				// counterexample mode: quantifier-free relaxation, only to obtain a candidate model
				cf := filepath.Join(workDir, smtName(o.Name)+".cex.smt2")
				o.Cex = Solve(cexScript(o.Script), cf, 5, false, false)
			}
		}(o)
	}
	wg.Wait()
	// second chance for obligations that ran out of time (machine under load):
	// a few at a time, three times the budget; an obligation is reported as
	// failed only if it is still undecided then
	var again []*Obligation
	for _, o := range obls {
		if o.Trivial || o.Failed || o.Script == "" || o.Expect != "unsat" {
			continue
		}
		if (o.Result.Status == "timeout" || o.Result.Status == "error") && o.Cex.Status != "sat" {
			again = append(again, o)
		}
	}
	if len(again) > 24 {
		again = again[:24]
	}
	sem2 := make(chan struct{}, 4)
	for _, o := range again {
		wg.Add(1)
		go func(o *Obligation) {
			defer wg.Done()
			sem2 <- struct{}{}
			defer func() { <-sem2 }()
			file := filepath.Join(workDir, smtName(o.Name)+".retry.smt2")
			budget := 3 * timeoutS
			if data, err := os.ReadFile("/proc/loadavg"); err == nil {
				var l1 float64
				if _, err := fmt.Sscanf(string(data), "%f", &l1); err == nil && l1 > 32 {
					budget = 6 * timeoutS // the machine is heavily oversubscribed right now
				}
			}
			r := Solve(o.Script, file, budget, all, false)
			r.AllRuns = append(o.Result.AllRuns, r.AllRuns...)
			if r.Status == "unsat" || r.Status == "sat" {
				o.Result = r
			}
		}(o)
	}
	wg.Wait()
}

// cexScript drops every quantified assertion except the (negated) goal.
func cexScript(script string) string {
	cmds := splitCommands(script)
	last := -1
	for i, c := range cmds {
		if strings.HasPrefix(c, "(assert") {
			last = i
		}
	}
	var b strings.Builder
	for i, c := range cmds {
		if i != last && strings.HasPrefix(c, "(assert") && (strings.Contains(c, "(forall ") || strings.Contains(c, "(exists ")) {
			continue
		}
		b.WriteString(c)
		b.WriteByte('\n')
	}
	return b.String()
}

// model returns the candidate counterexample (from the full query or from
// the quantifier-free relaxation).
func (o *Obligation) model() (map[string]string, string) {
	if o.Result.Status == "sat" && len(o.Result.Model) > 0 {
		return o.Result.Model, "sat"
	}
	if o.Cex.Status == "sat" && len(o.Cex.Model) > 0 {
		return o.Cex.Model, "sat(quantifier-free relaxation)"
	}
	return nil, ""
}

func (o *Obligation) ok() bool {
	if o.Failed {
		return false
	}
	if o.Trivial {
		return true
	}
	if o.Expect == "sat" {
		// cover: must not be unsat (sat or unknown both show the assumptions are not refuted)
		return o.Result.Status != "unsat" && o.Result.Status != "error"
	}
	return o.Result.Status == "unsat"
}

func cmdVC(args []string) {
	fs := flag.NewFlagSet("vc", flag.ExitOnError)
	only := fs.String("fn", "", "only this function")
	timeout := fs.Int("t", 10, "solver timeout (s)")
	verbose := fs.Bool("v", false, "verbose")
	lists := fs.Bool("lists", true, "admit list axioms")
	_ = fs.Parse(args)
	p, err := loadAll()
	if err != nil {
		fmt.Fprintln(os.Stderr, "load:", err)
		os.Exit(2)
	}
	p.listsOK = *lists
	t0 := time.Now()
	obls := p.generate(*only)
	fmt.Printf("load %.1fs, generate %.1fs, %d obligations\n", p.loadSecs, time.Since(t0).Seconds(), len(obls))
	work := filepath.Join(verifDir, "work", "vc")
	_ = os.MkdirAll(work, 0o755)
	t1 := time.Now()
	solveAll(obls, *timeout, false, work)
	bad := 0
	for _, o := range obls {
		st := o.Result.Status
		if o.Failed {
			st = "FAILED(" + o.Reason + ")"
		}
		mark := "ok  "
		if !o.ok() {
			mark = "FAIL"
			bad++
		}
		if *verbose || !o.ok() {
			fmt.Printf("%s %-90s %-8s %-10s %.2fs [%s] %s\n", mark, o.Name, st, o.Result.Solver, o.Result.TimeS, strings.Join(o.Tags, ","), o.Pos)
			if !o.ok() && o.Result.Status == "error" {
				fmt.Println("     ", trunc(o.Result.Output, 400))
			}
		}
	}
	fmt.Printf("solve %.1fs; %d/%d ok\n", time.Since(t1).Seconds(), len(obls)-bad, len(obls))
	if bad > 0 {
		os.Exit(1)
	}
}

// inlinable: a function without contract that can be executed where it is
// called: no go statement, no defer of its own, no direct recursion. Loops are
// allowed; their clauses are guessed (infer.go).
func inlinable(fn *ssa.Function) bool {
	if fn.Blocks == nil {
		return false
	}
	for _, b := range fn.Blocks {
		for _, in := range b.Instrs {
			switch v := in.(type) {
			case *ssa.Defer, *ssa.Go:
				return false
			case *ssa.Call:
				if f, ok := v.Call.Value.(*ssa.Function); ok && f == fn {
					return false
				}
			}
		}
	}
	return true
}
