package main

// Engine semantics self-test: small functions with clauses that must be
// discharged (ok_*) and clauses that must not (bad_*), generated and solved
// exactly like the library's obligations. Run in the thorough tier of C14 and
// on demand (`bipverif engine-selftest`).

import (
	"bytes"
	"encoding/json"
	"fmt"
	"os"
	"os/exec"
	"path/filepath"
	"regexp"
	"strings"
)

type engineResult struct {
	Cases   int      `json:"cases"`
	OkPass  int      `json:"ok_clauses_discharged"`
	BadFail int      `json:"bad_clauses_refused"`
	Wrong   []string `json:"wrong"`
}

func runEngineSelftest() (*engineResult, error) {
	scratch, err := os.MkdirTemp(envOr("VERIF_SCRATCH", "/var/tmp"), "bipverif-engine-")
	if err != nil {
		return nil, err
	}
	defer os.RemoveAll(scratch)
	if out, err := exec.Command("rsync", "-a", "--exclude", ".git", repoDir+"/", scratch+"/").CombinedOutput(); err != nil {
		return nil, fmt.Errorf("copy: %v %s", err, out)
	}
	for _, f := range []string{"zz_engine_cases.go", "verif_contracts_engine.go"} {
		data, err := os.ReadFile(filepath.Join(verifDir, "selftest", "engine", f))
		if err != nil {
			return nil, err
		}
		if err := os.WriteFile(filepath.Join(scratch, f), data, 0o644); err != nil {
			return nil, err
		}
	}
	self, _ := os.Executable()
	cmd := exec.Command(self, "engine-selftest-inner")
	cmd.Env = append(os.Environ(), "VERIF_REPO="+scratch, "VERIF_DIR="+verifDir)
	var buf bytes.Buffer
	cmd.Stdout, cmd.Stderr = &buf, &buf
	_ = cmd.Run()
	out := buf.String()
	k := strings.LastIndex(out, "ENGINE-RESULT ")
	if k < 0 {
		return nil, fmt.Errorf("engine self-test did not run: %s", trunc(out, 800))
	}
	var res engineResult
	if err := json.Unmarshal([]byte(strings.TrimSpace(out[k+len("ENGINE-RESULT "):])), &res); err != nil {
		return nil, err
	}
	if len(res.Wrong) > 0 {
		return &res, fmt.Errorf("engine self-test: %d unexpected verdicts: %s", len(res.Wrong), strings.Join(res.Wrong, "; "))
	}
	return &res, nil
}

func cmdEngineInner() {
	p, err := loadAll()
	if err != nil {
		fmt.Println("load:", err)
		os.Exit(2)
	}
	p.groundObligations()
	var obls []*Obligation
	p.runInit()
	for _, f := range p.allFunctions() {
		n := p.contractName(f.fn)
		if !strings.HasPrefix(n, "et") {
			continue
		}
		fc := p.Contracts.Funcs[n]
		if fc == nil {
			continue
		}
		ex := p.newExec(f.fn, fc)
		ex.ghostFn = true
		ex.run()
		obls = append(obls, ex.obls...)
	}
	work := filepath.Join(verifDir, "work", fmt.Sprintf("engine-selftest.%d", os.Getpid()))
	_ = os.RemoveAll(work)
	_ = os.MkdirAll(work, 0o755)
	defer os.RemoveAll(work)
	solveAll(obls, 10, false, work)
	// proof alternatives are part of the engine: same rule as in a check
	if acc := p.tryVariants(obls, checkOpts{prop: "C14", tier: "quick", timeoutS: 10}, work); len(acc) > 0 {
		obls = replaceByVariants(obls, acc, func(o *Obligation) bool { return true })
	}
	var exp struct {
		MustFail []string `json:"must_fail"`
		MustPass []string `json:"must_pass"`
	}
	data, _ := os.ReadFile(filepath.Join(verifDir, "selftest", "engine", "expect.json"))
	_ = json.Unmarshal(data, &exp)
	res := engineResult{}
	used := map[string]bool{}
	match := func(pats []string, name string) bool {
		for _, pt := range pats {
			if ok, _ := regexp.MatchString("^"+pt+"$", name); ok {
				used[pt] = true
				return true
			}
		}
		return false
	}
	for _, o := range obls {
		if o.Kind == "cover" {
			continue
		}
		b := baseName(o.Name)
		switch {
		case strings.Contains(b, "/ok_") || match(exp.MustPass, b):
			res.Cases++
			if o.ok() {
				res.OkPass++
			} else {
				res.Wrong = append(res.Wrong, b+" not discharged ("+statusOf(o)+")")
			}
		case strings.Contains(b, "/bad_") || match(exp.MustFail, b):
			res.Cases++
			if !o.ok() {
				res.BadFail++
			} else {
				res.Wrong = append(res.Wrong, b+" was discharged but must fail")
			}
		}
	}
	// an expectation that matches no obligation is itself a failure (vacuous expectation)
	for _, pt := range append(append([]string{}, exp.MustFail...), exp.MustPass...) {
		if !used[pt] {
			res.Wrong = append(res.Wrong, "expectation "+pt+" matches no obligation")
		}
	}
	if os.Getenv("VERIF_ENGINE_LIST") != "" {
		for _, o := range obls {
			fmt.Printf("  %-70s %s\n", baseName(o.Name), statusOf(o))
		}
	}
	js, _ := json.Marshal(res)
	fmt.Println("ENGINE-RESULT " + string(js))
}
