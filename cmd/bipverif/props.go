package main

import (
	"encoding/json"
	"fmt"
	"os"
)

var propExplain = map[string]string{
	"C01": "NewMnemonicByEntropy's postcondition (result == join(ws, sep), |ws| == 3*len/4, ws[j] == list[digit(V, n-1-j)] with V = entropy*2^CS + first CS bits of SHA-256, digit = iterated division by 2048) is proved for symbolic entropy and language, per accepted size; fromEntropy's loop is covered for all iterations by an inductive invariant; Language.list is proved to return the list of the constant of the same name.",
	"C02": "ghost clients call the real generator and validator; with both replaced by their contracts the panic is proved unreachable for every valid entropy/count and supported language (three proof cuts per size: tokens == words, indices == digits, reassembled integer == V). CheckMnemonic's own clauses F1-F4 and the ten map builders are proved against the code.",
	"C03": "CheckMnemonic returns nil only on the path where count, membership and checksum conditions hold (clauses F1-F4 cover every return); IsMnemonicValid == (CheckMnemonic == nil); the count corollary is the arithmetic lemma countLemma.",
	"C04": "single-path postcondition: fresh 64-byte slice equal to pbkdf2(bytesOf(nfkd m), \"mnemonic\" ++ bytesOf(nfkd p), 2048, 64, sha512.New); PBKDF2/HMAC/NFKD implementations are assumptions.",
	"C05": "the spec decoder applied to the generator's postcondition returns the original bytes (needs list distinctness, discharged by evaluation).",
	"C06": "NewMnemonic's clauses: enough bytes -> nil error, encoding of exactly those bytes and position advanced by 4n/3; otherwise \"\" and a non-nil error. io.ReadFull and io.ReadAtLeast (standard library source of the toolchain in use) are under contract too and verified with a loop invariant over the delivered prefix, so every fragmentation and every failure point is covered; what is assumed is the stream contract of the source's Read method.",
	"C07": "the package initialiser is executed symbolically: the source variable holds crypto/rand.Reader; the discipline scan shows no other writer; NewMnemonic's postcondition depends on the stream only and its body calls nothing without a contract.",
	"C08": "ground obligations over the composite literals of the current tree, all 10 x 2048 entries: length, distinctness, non-empty/UTF-8/no white space, NFKD-stable, byte-equal to the reference lists; Language.list / mapping contracts tie the data to the API.",
	"C09": "gate postconditions over exact 64-bit integer semantics (all int values incl. negatives and extremes); sentinel values are non-nil and pairwise distinct by execution of the initialiser; rejected counts leave the stream position unchanged.",
	"C10": "two calls with nfkd(a) == nfkd(b) give the same nil-ness and error kinds because the contract of CheckMnemonic is a function of nfkd(m).",
	"C11": "two calls with equal NFKD forms give equal bytes by the contract of MnemonicToSeed.",
	"C12": "NOT an exploration of schedules: a sufficient discipline is proved for all schedules - every package-level variable is written only by init or inside the literal passed to its own sync.Once, reads of guarded variables are dominated by Once.Do, no address escapes, no goroutines/channels/unsafe, and every function's frame shows nothing else shared is written.",
	"C13": "every function is proved assuming only the global invariants, which init establishes and every function preserves; assigns frames show nothing pre-existing is written (caller's entropy unchanged, earlier results untouched); history ghost clients repeat a call around an arbitrary API call.",
	"C14": "a safety obligation at every instruction that can panic (index/slice bounds, nil map write, nil dereference, integer and big.Int division by zero, make with negative size, callee preconditions) under requires true for exported functions, plus a variant for every loop.",
	"C15": "postconditions F1-F3: ErrWordLen when only the count is wrong, ErrChecksumIncorrect when only the checksum is wrong, otherwise a fresh error (not matching either sentinel) whose message contains an unknown token.",
	"C16": "Language.String's postcondition against the names of the Language constants as read by go/types, and \"Language(N)\" otherwise; slice bounds on the name table.",
	"C17": "MIXED: the glue of updateWordlist (URL, target path and flags, template data == (variable, split(body, \"\\n\")), errors propagated) and the langs table are proved; what html/template writes is observed by a BOUNDED run of the real tool on a stated input family and is not proved.",
}

var propAssume = map[string][]string{
	"C02": {"string axioms: split(join(ws, sep), sep) == ws for separator-free ws; NFKD of a sentence of NFKD-stable words joined by U+0020/U+3000 is the words joined by U+0020 (N3j)"},
	"C03": {"string lemma FS: if every element of split(s, \" \") is non-empty and free of white space then strings.Fields(s) == split(s, \" \")"},
	"C04": {"NFKD axiom N2: nfkd(a ++ s) == a ++ nfkd(s) for ASCII a (used to equate nfkd(\"mnemonic\"+p) with \"mnemonic\" ++ nfkd(p))", "PBKDF2-HMAC-SHA512 and NFKD are uninterpreted: that x/crypto and x/text implement their standards is not verified"},
	"C06": {"the stream contract of a source's Read method (0 <= n <= len(p), never more than the source still delivers, the first n bytes are the next stream bytes, progress or an error, no error while len(p) bytes are still deliverable) is the only assumption about the randomness source"},
	"C08": {"reference lists: English anchored to the published SHA-256 (2f5eed53...dbda); the other nine are trust-on-first-use from the pinned commit"},
	"C10": {"whether x/text maps a particular keyboard spelling to the stored word is a fact about x/text (N1-N3j assumed)"},
	"C12": {"Go memory model; sync.Once contract; goroutine-safety of crypto/rand.Reader and of read-only use of shared *big.Int operands and x/text tables"},
	"C17": {"html/template.Execute has no contract: bounded run only"},
}

func propertyExplanation(prop string) string   { return propExplain[prop] }
func propertyAssumptions(prop string) []string { return propAssume[prop] }

// cmdReplay re-runs the harness for a stored replay file.
func cmdReplay(args []string) {
	if len(args) < 1 {
		fmt.Fprintln(os.Stderr, "usage: bipverif replay <file>")
		os.Exit(2)
	}
	data, err := os.ReadFile(args[0])
	if err != nil {
		fmt.Fprintln(os.Stderr, err)
		os.Exit(2)
	}
	var rf replayFile
	if err := json.Unmarshal(data, &rf); err != nil {
		fmt.Fprintln(os.Stderr, err)
		os.Exit(2)
	}
	p := &Program{RepoDir: repoDir}
	res, cmdline, note := p.runHarness(rf.Property, rf.Obligation, rf.Hints, checkOpts{prop: rf.Property, seed: 1})
	out, _ := json.MarshalIndent(map[string]interface{}{"obligation": rf.Obligation, "replay_cmd": cmdline, "result": res, "note": note}, "", " ")
	fmt.Println(string(out))
	if f, ok := res["found"].(bool); ok && f {
		fmt.Printf("VIOLATION property=%s replay=%s\n", rf.Property, args[0])
		os.Exit(1)
	}
}
