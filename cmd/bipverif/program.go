package main

// Loading the repository under test: go/packages + go/ssa (naive form),
// language constants, package-level variable disciplines, the package
// initialiser, and the may-write ("touch") analysis used for frames.

import (
	"fmt"
	"go/constant"
	"go/token"
	"go/types"
	"os"
	"path/filepath"
	"regexp"
	"sort"
	"strings"

	"golang.org/x/tools/go/packages"
	"golang.org/x/tools/go/ssa"
	"golang.org/x/tools/go/ssa/ssautil"
)

const modPath = "github.com/islishude/bip39"

// fresh symbols created while executing the package initialiser are numbered
// from here so that they never collide with a function's own symbols
const initSymBase = 1000000

type Program struct {
	RepoDir   string
	Fset      *token.FileSet
	Pkgs      []*packages.Package
	SSA       *ssa.Program
	Main      *ssa.Package
	WL        *ssa.Package
	Tool      *ssa.Package
	Lang      *LangInfo
	Contracts *Contracts

	initVals  map[*ssa.Global]SV
	initFacts []string
	initDone  bool
	initNext  int64
	initObls  []*Obligation

	onceIDs          map[*ssa.Global]int
	touchCache       map[*ssa.Function]map[string]bool
	touchGlobals     map[*ssa.Function]map[*ssa.Global]bool
	usedDeps         map[string]bool
	usedContracts    map[string]bool
	preludeCache     map[bool]string
	listsOK          bool
	verifFiles       map[string]bool // files carrying the verif tag
	loadSecs         float64
	mutGlobals       []*ssa.Global
	lits             map[string]string
	wordLists        map[string]*WordList
	verifExempt      []string
	bounded          *boundedStats
	initDecls        []string
	audits           []map[string]interface{}
	selftest         []map[string]interface{}
	benign           []map[string]interface{}
	engineTest       *engineResult
	crossCheck       map[string]interface{}
	returnCovers     bool
	returnCoverStats map[string]interface{}
	variantLog       []string
	twinStats        map[string]interface{}
	probeSelftest    map[string]interface{}
	conformanceNote  string
	quickAudits      []map[string]interface{}
	groundDone       bool
	groundObls       []*Obligation
	listFacts        map[string]bool
	groundHints      map[string]map[string]string
	litList          []string
	extConsts        map[string]bool
	extErrs          map[string]bool
	provedDeps       map[string]bool
	fnDeps           map[string]map[string]bool
	inlined          map[string]bool
	initBig          map[string]string // reference (numeral) -> value given by big.NewInt in the package initialiser
	localsTable      map[string]map[string]localType
}

func LoadProgram(repo string) (*Program, error) {
	p := &Program{RepoDir: repo, initVals: map[*ssa.Global]SV{}, onceIDs: map[*ssa.Global]int{},
		touchCache: map[*ssa.Function]map[string]bool{}, touchGlobals: map[*ssa.Function]map[*ssa.Global]bool{},
		usedDeps: map[string]bool{}, usedContracts: map[string]bool{}, preludeCache: map[bool]string{},
		verifFiles: map[string]bool{}, extConsts: map[string]bool{}, extErrs: map[string]bool{}, provedDeps: map[string]bool{}, fnDeps: map[string]map[string]bool{}, inlined: map[string]bool{}, initBig: map[string]string{}, lits: map[string]string{}}
	p.Fset = token.NewFileSet()
	cfg := &packages.Config{
		Mode:       packages.LoadAllSyntax,
		Dir:        repo,
		Fset:       p.Fset,
		BuildFlags: []string{"-tags=verif", "-mod=mod"},
		Env:        append(os.Environ(), "GOFLAGS=-mod=mod", "GOPROXY=off", "GOSUMDB=off", "GOTOOLCHAIN=local"),
	}
	pkgs, err := packages.Load(cfg, "./...")
	if err != nil {
		return nil, err
	}
	var errs []string
	packages.Visit(pkgs, nil, func(pk *packages.Package) {
		for _, e := range pk.Errors {
			errs = append(errs, e.Error())
		}
	})
	if len(errs) > 0 {
		return nil, fmt.Errorf("load errors: %s", strings.Join(errs, "; "))
	}
	p.Pkgs = pkgs
	prog, spkgs := ssautil.AllPackages(pkgs, ssa.NaiveForm|ssa.GlobalDebug)
	prog.Build()
	p.SSA = prog
	for i, pk := range pkgs {
		switch pk.PkgPath {
		case modPath:
			p.Main = spkgs[i]
		case modPath + "/internal/wordlist":
			p.WL = spkgs[i]
		case modPath + "/update-wordlist":
			p.Tool = spkgs[i]
		}
		for _, f := range pk.GoFiles {
			if data, err := os.ReadFile(f); err == nil {
				head := string(data)
				if k := strings.Index(head, "\npackage "); k >= 0 {
					head = head[:k]
				}
				if strings.Contains(head, "go:build verif") {
					p.verifFiles[f] = true
				}
			}
		}
	}
	if p.Main == nil {
		return nil, fmt.Errorf("package %s not found", modPath)
	}
	if p.WL == nil {
		for _, pk := range prog.AllPackages() {
			if pk.Pkg.Path() == modPath+"/internal/wordlist" {
				p.WL = pk
			}
		}
	}
	if err := p.loadLangInfo(); err != nil {
		return nil, err
	}
	return p, nil
}

func (p *Program) allPkgs() []*packages.Package {
	var out []*packages.Package
	packages.Visit(p.Pkgs, nil, func(pk *packages.Package) { out = append(out, pk) })
	return out
}

func (p *Program) isOurPkg(pk *ssa.Package) bool {
	return pk != nil && (pk == p.Main || pk == p.Tool)
}

func (p *Program) loadLangInfo() error {
	li := &LangInfo{ByName: map[string]int{}, Japanese: -1, English: -1}
	scope := p.Main.Pkg.Scope()
	lt := scope.Lookup("Language")
	if lt == nil {
		return fmt.Errorf("type Language not found")
	}
	byVal := map[int]string{}
	max := -1
	for _, n := range scope.Names() {
		c, ok := scope.Lookup(n).(*types.Const)
		if !ok || !types.Identical(c.Type(), lt.Type()) || !c.Exported() {
			// the supported languages are the exported constants; an unexported
			// sentinel (e.g. a count) is not a language
			continue
		}
		v, ok := constant.Int64Val(c.Val())
		if !ok {
			continue
		}
		if _, dup := byVal[int(v)]; dup {
			return fmt.Errorf("two Language constants share value %d", v)
		}
		byVal[int(v)] = n
		li.ByName[n] = int(v)
		if int(v) > max {
			max = int(v)
		}
	}
	for i := 0; i <= max; i++ {
		n, ok := byVal[i]
		if !ok {
			return fmt.Errorf("Language constants are not contiguous from 0 (missing %d)", i)
		}
		li.Names = append(li.Names, n)
	}
	if v, ok := li.ByName["Japanese"]; ok {
		li.Japanese = v
	}
	if v, ok := li.ByName["English"]; ok {
		li.English = v
	}
	p.Lang = li
	return nil
}

func (p *Program) prelude(native bool) string {
	if s, ok := p.preludeCache[native]; ok {
		return s
	}
	s := Prelude(p.Lang, native)
	s += "(declare-const nilAny Any)\n(declare-fun f_acc (SSeq Int Int Int) Int)\n(declare-fun f_horner (SSeq Int Int) Int)\n"
	// zero values of arrays over uninterpreted sorts (cvc5 accepts only values in `as const`)
	s += "(declare-const zeroStrArr (Array Int Str))\n(assert (forall ((i Int)) (! (= (select zeroStrArr i) lit_empty) :pattern ((select zeroStrArr i)))))\n"
	s += "(declare-const zeroAnyArr (Array Int Any))\n(assert (forall ((i Int)) (! (= (select zeroAnyArr i) nilAny) :pattern ((select zeroAnyArr i)))))\n"
	// declared names of the languages (ground, from go/types)
	var b strings.Builder
	b.WriteString("(declare-fun f_declNameU (Int) Str)\n")
	if native {
		b.WriteString("(define-fun f_declName ((l Int)) Str ")
		for i, n := range p.Lang.Names {
			fmt.Fprintf(&b, "(ite (= l %d) %s ", i, smtStringLit(n))
		}
		b.WriteString("(f_declNameU l)")
		b.WriteString(strings.Repeat(")", len(p.Lang.Names)))
		b.WriteString(")\n")
	} else {
		b.WriteString("(declare-fun f_declName (Int) Str)\n")
	}
	s += b.String()
	s += ListAxioms(p.Lang, p.listFacts, p.listsOK)
	var ees []string
	for c := range p.extErrs {
		ees = append(ees, c)
	}
	sort.Strings(ees)
	for _, c := range ees {
		// assumption: exported sentinel errors of dependency packages are non-nil, pairwise distinct constants
		s += fmt.Sprintf("(declare-const %s Err)\n(assert (not (= %s nilErr)))\n", c, c)
	}
	if len(ees) > 1 {
		s += "(assert (distinct " + strings.Join(ees, " ") + "))\n"
	}
	var ecs []string
	for c := range p.extConsts {
		ecs = append(ecs, c)
	}
	sort.Strings(ecs)
	for _, c := range ecs {
		// assumption: exported variables of dependency packages holding interface values are non-nil
		s += fmt.Sprintf("(declare-const %s Int)\n(assert (and (> %s 0) (< %s 20)))\n", c, c, c)
	}
	p.preludeCache[native] = s
	return s
}

func (p *Program) globalByName(name string) *ssa.Global {
	if g, ok := p.Main.Members[name].(*ssa.Global); ok {
		return g
	}
	return nil
}

func (p *Program) onceID(g *ssa.Global) int {
	if id, ok := p.onceIDs[g]; ok {
		return id
	}
	// stable: ordinal among sync.Once globals sorted by name
	var names []string
	for n, m := range p.Main.Members {
		if gg, ok := m.(*ssa.Global); ok && isNamed(gg.Type().(*types.Pointer).Elem(), "sync", "Once") {
			names = append(names, n)
		}
	}
	sort.Strings(names)
	for i, n := range names {
		p.onceIDs[p.Main.Members[n].(*ssa.Global)] = i + 1
	}
	return p.onceIDs[g]
}

// mutableGlobals: package-level variables with a guarded_by discipline.
func (p *Program) mutableGlobals() []*ssa.Global {
	if p.mutGlobals != nil {
		return p.mutGlobals
	}
	var gs []*ssa.Global
	for name, d := range p.Contracts.Globals {
		if d.Kind == "guarded_by" {
			if g := p.globalByName(name); g != nil {
				gs = append(gs, g)
			}
		}
	}
	sort.Slice(gs, func(i, j int) bool { return gs[i].Name() < gs[j].Name() })
	p.mutGlobals = gs
	return gs
}

// globalValue: value of an immutable package-level variable (from init).
func (p *Program) globalValue(g *ssa.Global) (SV, bool) {
	if g.Pkg == p.WL {
		// word list slice: ref = wlref(L) for the language constant of the same name
		l, ok := p.Lang.ByName[g.Name()]
		if !ok {
			return SV{}, false
		}
		n := int64(2048)
		if wl := p.loadWordLists()[g.Name()]; wl != nil && wl.Bad == "" {
			n = int64(len(wl.Words))
		}
		return SV{K: KSlice, Elem: "string", Ref: IntLit(int64(l + 1)), Off: IntLit(0), Len: IntLit(n), Cap: IntLit(n)}, true
	}
	sv, ok := p.initVals[g]
	return sv, ok
}

// extGlobal: a variable of a dependency package, e.g. crypto/rand.Reader.
func (p *Program) extGlobal(ex *Exec, st *State, g *ssa.Global) SV {
	if g.Pkg == p.WL {
		if sv, ok := p.globalValue(g); ok {
			return sv
		}
	}
	c := classify(g.Type().(*types.Pointer).Elem())
	if c.K == KScalar && c.Sort == SErr {
		// sentinel error of a dependency package (io.EOF, ...): a non-nil constant
		name := "exterr_" + smtName(g.Pkg.Pkg.Path()+"."+g.Name())
		if !p.extErrs[name] {
			p.extErrs[name] = true
			p.preludeCache = map[bool]string{}
		}
		return Scalar(T(SErr, name))
	}
	if c.K == KScalar && c.Sort == SInt {
		name := "ext_" + smtName(g.Pkg.Pkg.Path()+"."+g.Name())
		if !p.extConsts[name] {
			p.extConsts[name] = true
			p.preludeCache = map[bool]string{}
		}
		return Scalar(T(SInt, name))
	}
	panic(unsupported("load of foreign variable " + g.String()))
}

func (p *Program) lookupPkgName(ex *Exec, st *State, name string) (SV, bool) {
	if ex.fn != nil && ex.fn.Pkg != nil && ex.fn.Pkg != p.Main {
		if g, ok := ex.fn.Pkg.Members[name].(*ssa.Global); ok {
			if sv, ok := p.globalValue(g); ok {
				return sv, true
			}
		}
		if c, ok := ex.fn.Pkg.Members[name].(*ssa.NamedConst); ok {
			return ex.constVal(st, c.Value), true
		}
	}
	if v, ok := p.Lang.ByName[name]; ok {
		return Scalar(IntLit(int64(v))), true
	}
	if g := p.globalByName(name); g != nil {
		if sv, ok := st.globals[g]; ok {
			return sv, true
		}
		if sv, ok := p.globalValue(g); ok {
			return sv, true
		}
	}
	if c, ok := p.Main.Members[name].(*ssa.NamedConst); ok {
		return ex.constVal(st, c.Value), true
	}
	return SV{}, false
}

func (p *Program) lookupQualified(ex *Exec, st *State, pkg, name string) (SV, bool) {
	if pkg == "wordlist" && p.WL != nil {
		if g, ok := p.WL.Members[name].(*ssa.Global); ok {
			return p.globalValue(g)
		}
	}
	if pkg == "rand" && name == "Reader" {
		nm := "ext_crypto_rand_Reader"
		if !p.extConsts[nm] {
			p.extConsts[nm] = true
			p.preludeCache = map[bool]string{}
		}
		return Scalar(T(SInt, nm)), true
	}
	return SV{}, false
}

// ---------------------------------------------------------------------------
// package initialiser

func (p *Program) runInit() []*Obligation {
	if p.initDone {
		return p.initObls
	}
	p.initDone = true
	if p.Tool != nil {
		// the generator's initialiser: lenient (values it cannot model stay unknown)
		if fn := p.Tool.Func("init"); fn != nil {
			ex := p.newExec(fn, nil)
			ex.isInit = true
			ex.lenient = true
			ex.name = "update-wordlist.init"
			func() {
				defer func() { _ = recover() }()
				ex.findLoops()
				st := ex.newEntryState()
				st.next = IntLit(40)
				st.pc = nil
				ex.stepBudget = 100000
				ex.runBlock(st, fn.Blocks[0], 0)
			}()
		}
	}
	fn := p.Main.Func("init")
	ex := p.newExec(fn, nil)
	ex.isInit = true
	ex.lenient = true
	ex.reportLenient = true
	ex.name = "init"
	ex.nfresh = initSymBase
	func() {
		defer func() {
			if r := recover(); r != nil {
				if ue, ok := r.(unsupported); ok {
					ex.failObl("subset", "init", string(ue), nil, nil)
					return
				}
				panic(r)
			}
		}()
		ex.findLoops()
		st := ex.newEntryState()
		st.next = IntLit(20)
		st.pc = nil
		st.heap["Done"] = T(SAIBo, "((as const (Array Int Bool)) false)")
		for g := range st.globals {
			// package-level variables without initialiser start at their zero value
			st.globals[g] = ex.zeroOfType(st, g.Type().(*types.Pointer).Elem())
		}
		ex.assumeHeapBasics(st)
		ex.stepBudget = 100000
		ex.runBlock(st, fn.Blocks[0], 0)
	}()
	p.initObls = ex.obls
	return ex.obls
}

func (p *Program) initStore(ex *Exec, st *State, g *ssa.Global, v SV) {
	p.initVals[g] = v
}

// recordInit is called at the return of init: path facts become global facts,
// heap contents of the big.Int globals are recorded as concrete values.
func (p *Program) recordInit(ex *Exec, st *State) {
	// symbols introduced while executing init (values of unknown initialisers)
	// are declared in every VC; their defining facts become global facts
	initSym := regexp.MustCompile(`_(\d{7,})\b`)
	for _, d := range ex.decls {
		if initSym.MatchString(d) {
			p.initDecls = append(p.initDecls, d)
		}
	}
	for _, t := range st.pc {
		if initSym.MatchString(t.S) && !strings.Contains(t.S, "_0 ") && !strings.Contains(t.S, "_0)") {
			p.initFacts = append(p.initFacts, t.S)
		}
	}
	p.preludeCache = map[bool]string{}
	// every package-level *big.Int that init sets with big.NewInt(c) and that is never written
	// elsewhere (discipline scan) keeps that value: an automatic global invariant, by name of
	// the variable as it is called in the tree under test
	var gnames []string
	byG := map[string]string{}
	for g, sv := range p.initVals {
		if g.Pkg == p.Main && sv.K == KScalar && classify(g.Type().(*types.Pointer).Elem()).What == "bigint" {
			if v, ok := p.initBig[sv.T.S]; ok {
				gnames = append(gnames, g.Name())
				byG[g.Name()] = v
			}
		}
	}
	sort.Strings(gnames)
	for _, n := range gnames {
		src := fmt.Sprintf("val(%s) == %s", n, strings.Trim(byG[n], "()- "))
		if strings.HasPrefix(byG[n], "(-") {
			src = fmt.Sprintf("val(%s) == 0-%s", n, strings.Trim(byG[n], "()- "))
		}
		if e, err := parseExprSrc(src); err == nil {
			dup := false
			for _, inv := range p.Contracts.Invariants {
				if inv.Label == "auto-"+n {
					dup = true
				}
			}
			if !dup {
				p.Contracts.Invariants = append(p.Contracts.Invariants, &Clause{Kind: "invariant", Label: "auto-" + n, Src: src, Expr: e})
			}
		}
	}
	// with a concrete allocation counter the values stored by init are closed
	// terms; what remains are the heap-resident facts, proved here once as
	// "init establishes the global invariants".
	for _, inv := range p.Contracts.Invariants {
		t := ex.specBool(st, inv.Expr, &specCtx{mode: "exitinv"})
		ex.oblige(st, "init-inv", inv.Label, t, append([]string{"C13"}, inv.Tags...), nil, inv.Src)
	}
	if fc := p.Contracts.Funcs["init"]; fc != nil {
		for _, e := range fc.Ensures {
			g := ex.specBool(st, e.Expr, &specCtx{mode: "exitinv"})
			ex.oblige(st, "ensures", e.Label, g, e.Tags, nil, e.Src)
		}
	}
}

// ---------------------------------------------------------------------------
// may-write analysis

func (p *Program) touchOf(fn *ssa.Function) (map[string]bool, map[*ssa.Global]bool) {
	if t, ok := p.touchCache[fn]; ok {
		return t, p.touchGlobals[fn]
	}
	t := map[string]bool{}
	g := map[*ssa.Global]bool{}
	p.touchCache[fn] = t // cycle guard
	p.touchGlobals[fn] = g
	for _, b := range fn.Blocks {
		for _, in := range b.Instrs {
			p.touchInstr(in, t, g)
		}
	}
	return t, g
}

func (p *Program) touchInstr(in ssa.Instruction, t map[string]bool, gl map[*ssa.Global]bool) {
	add := func(xs ...string) {
		for _, x := range xs {
			t[x] = true
		}
	}
	// a call into another package without contract: it can write only what its
	// arguments let it reach (heaps chosen by the static argument types)
	unknown := func(cc *ssa.CallCommon) {
		add("next")
		var tys []types.Type
		if cc.IsInvoke() {
			tys = append(tys, cc.Value.Type())
		}
		for _, a := range cc.Args {
			tys = append(tys, a.Type())
		}
		for _, ty := range tys {
			c := classify(ty)
			switch {
			case c.K == KSlice && c.Elem == "byte":
				add("BMem")
			case c.K == KSlice && c.Elem == "string":
				add("SMem")
			case c.K == KSlice:
				add("BMem", "SMem")
			case c.What == "bigint":
				add("BigVal")
			case c.What == "map":
				add("MDom", "MVal")
			case c.What == "iface":
				add("HAcc", "RPos")
			case c.K == KPtr || c.K == KOpaque || c.K == KFunc:
				add(heapMaps...)
			}
		}
	}
	switch v := in.(type) {
	case *ssa.Alloc:
		if isNamed(v.Type().(*types.Pointer).Elem(), "math/big", "Int") {
			add("BigVal", "next")
		}
		if _, isArr := byteArrayLen(v.Type().(*types.Pointer).Elem()); isArr {
			add("BMem", "next")
		}
	case *ssa.MakeSlice:
		add("BMem", "SMem", "next")
	case *ssa.MakeMap:
		add("MDom", "MVal", "next")
	case *ssa.MapUpdate:
		add("MDom", "MVal")
	case *ssa.Convert:
		add("BMem", "next")
	case *ssa.Store:
		if pt, ok := v.Addr.Type().Underlying().(*types.Pointer); ok {
			if _, isArr := byteArrayLen(pt.Elem()); isArr {
				add("BMem")
			}
		}
		switch a := v.Addr.(type) {
		case *ssa.Global:
			gl[a] = true
		case *ssa.IndexAddr:
			add("BMem", "SMem")
			if g, ok := a.X.(*ssa.Global); ok {
				gl[g] = true
			}
		}
	case *ssa.Call:
		cc := v.Call
		if cc.IsInvoke() {
			name := "invoke " + typeShort(cc.Value.Type()) + "." + cc.Method.Name()
			if h := deps[name]; h != nil {
				add(h.touch...)
			} else {
				unknown(&cc)
			}
			return
		}
		switch callee := cc.Value.(type) {
		case *ssa.Builtin:
			if callee.Name() == "append" || callee.Name() == "copy" {
				add("BMem", "next")
			}
		case *ssa.Function:
			full := callee.String()
			if full == "(*sync.Once).Do" {
				add("Done")
				if len(cc.Args) == 2 {
					var f *ssa.Function
					switch a := cc.Args[1].(type) {
					case *ssa.Function:
						f = a
					case *ssa.MakeClosure:
						f, _ = a.Fn.(*ssa.Function)
					}
					if f != nil {
						ct, cg := p.touchOf(f)
						for k := range ct {
							t[k] = true
						}
						for k := range cg {
							gl[k] = true
						}
					} else {
						add(heapMaps...)
						add("next")
					}
				}
				return
			}
			if p.isOurPkg(callee.Pkg) || (callee.Parent() != nil && p.isOurPkg(callee.Parent().Pkg)) {
				ct, cg := p.touchOf(callee)
				for k := range ct {
					t[k] = true
				}
				for k := range cg {
					gl[k] = true
				}
				return
			}
			if h := deps[full]; h != nil {
				add(h.touch...)
				return
			}
			if callee.Name() == "init" {
				return
			}
			unknown(&cc)
		case *ssa.MakeClosure:
			if f, ok := callee.Fn.(*ssa.Function); ok {
				ct, cg := p.touchOf(f)
				for k := range ct {
					t[k] = true
				}
				for k := range cg {
					gl[k] = true
				}
				return
			}
			add(heapMaps...)
			add("next")
		default:
			add(heapMaps...)
			add("next")
		}
	}
}

// depFunction finds a function of a dependency package by "pkgname.Func".
func (p *Program) depFunction(name string) *ssa.Function {
	k := strings.Index(name, ".")
	if k < 0 {
		return nil
	}
	pkgName, fn := name[:k], name[k+1:]
	for _, pk := range p.SSA.AllPackages() {
		if pk.Pkg.Name() == pkgName && !p.isOurPkg(pk) {
			if f := pk.Func(fn); f != nil && f.Blocks != nil {
				return f
			}
		}
	}
	return nil
}

func contractFiles(repo string) []string {
	var out []string
	m, _ := filepath.Glob(filepath.Join(repo, "verif_contracts*.go"))
	out = append(out, m...)
	m, _ = filepath.Glob(filepath.Join(repo, "update-wordlist", "verif_contracts*.go"))
	out = append(out, m...)
	return out
}

// onceOfLiteral: the sync.Once whose Do receives this function literal (nil if none).
func (p *Program) onceOfLiteral(fn *ssa.Function) *ssa.Global {
	if fn == nil || fn.Parent() == nil {
		return nil
	}
	for _, b := range fn.Parent().Blocks {
		for _, in := range b.Instrs {
			c, ok := in.(*ssa.Call)
			if !ok || c.Call.IsInvoke() || len(c.Call.Args) != 2 {
				continue
			}
			callee, ok := c.Call.Value.(*ssa.Function)
			if !ok || callee.String() != "(*sync.Once).Do" {
				continue
			}
			var lit *ssa.Function
			switch a := c.Call.Args[1].(type) {
			case *ssa.Function:
				lit = a
			case *ssa.MakeClosure:
				lit, _ = a.Fn.(*ssa.Function)
			}
			if lit == fn {
				if g, ok := c.Call.Args[0].(*ssa.Global); ok {
					return g
				}
			}
		}
	}
	return nil
}

type localType struct {
	Type    string `json:"type"`
	Ordinal int    `json:"ordinal"`
}

// localsOf: every named local of a function with its type and ordinal among
// the locals of that type (source order).
func localsOf(fn *ssa.Function) map[string]localType {
	out := map[string]localType{}
	var allocs []*ssa.Alloc
	for _, b := range fn.Blocks {
		for _, in := range b.Instrs {
			if a, ok := in.(*ssa.Alloc); ok && a.Comment != "" && a.Comment != "defer$stack" {
				allocs = append(allocs, a)
			}
		}
	}
	sort.Slice(allocs, func(i, j int) bool { return allocs[i].Pos() < allocs[j].Pos() })
	count := map[string]int{}
	for _, a := range allocs {
		t := a.Type().String()
		count[t]++
		if _, dup := out[a.Comment]; !dup {
			out[a.Comment] = localType{t, count[t]}
		}
	}
	return out
}
