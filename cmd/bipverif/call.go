package main

import (
	"fmt"
	"go/types"
	"strings"

	"golang.org/x/tools/go/ssa"
)

func (ex *Exec) stepCall(st *State, c *ssa.Call) []*State {
	cc := c.Call
	var args []SV
	if cc.IsInvoke() {
		args = append(args, ex.val(st, cc.Value))
	}
	for _, a := range cc.Args {
		args = append(args, ex.val(st, a))
	}
	if cc.IsInvoke() {
		it := cc.Value.Type()
		name := "invoke " + typeShort(it) + "." + cc.Method.Name()
		if name == "invoke error.Error" {
			ex.safety(st, "nil", Not(Eq(args[0].T, T(SErr, "nilErr"))), c, "Error() on nil error")
			st.vals[c] = Scalar(App(SStr, "f_msg", args[0].T))
			return nil
		}
		h := deps[name]
		if h == nil {
			ex.failObl("dep", "uncontracted/"+name, "interface method without an assumed contract", ex.fnTags(), c)
			st.vals[c] = ex.freshOfType(st, "r_"+cc.Method.Name(), c.Type(), false)
			ex.havocReachable(st, args, &c.Call)
			return nil
		}
		ex.noteDep(name)
		st.vals[c] = h.fn(ex, st, c, args)
		return nil
	}
	switch callee := cc.Value.(type) {
	case *ssa.Builtin:
		return ex.callBuiltin(st, c, callee, args)
	case *ssa.Function:
		return ex.callStatic(st, c, callee, args)
	case *ssa.MakeClosure:
		if fn, ok := callee.Fn.(*ssa.Function); ok {
			// a function literal called where it is written
			ex.curBinds = ex.val(st, callee).Tuple
			forks := ex.callStatic(st, c, fn, args)
			ex.curBinds = nil
			return forks
		}
	}
	ex.failObl("subset", "dynamic-call", "call through a function value", ex.fnTags(), c)
	st.vals[c] = ex.freshOfType(st, "r_dyn", c.Type(), false)
	ex.havocAll(st)
	return nil
}

func typeShort(t types.Type) string {
	if n, ok := t.(*types.Named); ok {
		if n.Obj().Pkg() == nil {
			return n.Obj().Name()
		}
		return n.Obj().Pkg().Name() + "." + n.Obj().Name()
	}
	return t.String()
}

func (ex *Exec) havocAll(st *State) {
	for _, h := range heapMaps {
		st.heap[h] = ex.fresh(h+"_hv", heapSort[h])
	}
	n := ex.fresh("next_hv", SInt)
	st.assume(Ge(n, st.next))
	st.next = n
	for g, sv := range st.globals {
		st.globals[g] = ex.havocByKind(st, sv, "g_"+g.Name()+"_hv")
	}
}

// havocReachable forgets the contents of every heap object handed to an
// unknown dependency function (and lets it allocate).
func (ex *Exec) havocReachable(st *State, args []SV, cc ...*ssa.CallCommon) {
	// static types of the arguments tell which heap a reference lives in
	var argTypes []types.Type
	if len(cc) > 0 && cc[0] != nil {
		if cc[0].IsInvoke() {
			argTypes = append(argTypes, cc[0].Value.Type())
		}
		for _, a := range cc[0].Args {
			argTypes = append(argTypes, a.Type())
		}
	}
	classOf := func(i int) string {
		if i < len(argTypes) {
			return classify(argTypes[i]).What
		}
		return ""
	}
	if k, ok := modelInt(st.next.S); ok && isAtom(st.next.S) {
		// concrete allocation counter (package initialiser): keep it concrete
		st.next = IntLit(k.Int64() + 16)
	} else {
		n := ex.fresh("next_hv", SInt)
		st.assume(Ge(n, st.next))
		st.next = n
	}
	upd := func(h string, ref Term) {
		elem := elemSortOfArray(heapSort[h])
		st.heap[h] = ex.define(st, h, Store(st.heap[h], ref, ex.fresh(h+"_unk", elem)))
	}
	argIndex := -1
	var visit func(a SV)
	visit = func(a SV) {
		switch a.K {
		case KSlice:
			if a.Cell != nil {
				return
			}
			switch a.Elem {
			case "byte":
				upd("BMem", a.Ref)
			case "string":
				upd("SMem", a.Ref)
			}
		case KScalar:
			if a.T.Sort == SInt && !isAtom(a.T.S) || (a.T.Sort == SInt && isAtom(a.T.S) && !isNumeral(a.T.S)) {
				// a reference: the objects of the heaps its static type can denote
				var hs []string
				switch classOf(argIndex) {
				case "bigint":
					hs = []string{"BigVal"}
				case "map":
					hs = []string{"MDom", "MVal"}
				case "iface":
					hs = []string{"HAcc", "RPos"}
				case "int", "bool", "string", "error", "any":
				default:
					hs = []string{"BigVal", "MDom", "MVal", "HAcc", "RPos"}
				}
				for _, h := range hs {
					upd(h, a.T)
				}
			}
		case KTuple:
			for _, x := range a.Tuple {
				visit(x)
			}
		case KStruct:
			for _, x := range a.Fields {
				visit(x)
			}
		case KPtr:
			if a.Ptr != nil && a.Ptr.Kind == PCell {
				if cur, ok := st.cells[a.Ptr.Cell]; ok && cur.K == KScalar {
					st.cells[a.Ptr.Cell] = Scalar(ex.fresh("cell_unk", cur.T.Sort))
				}
			}
		}
	}
	for i, a := range args {
		argIndex = i
		visit(a)
	}
}

func isNumeral(s string) bool {
	_, ok := modelInt(s)
	return ok
}

func (ex *Exec) havocByKind(st *State, sv SV, base string) SV {
	if sv.K == KScalar {
		return Scalar(ex.fresh(base, sv.T.Sort))
	}
	return sv
}

func (ex *Exec) callBuiltin(st *State, c *ssa.Call, b *ssa.Builtin, a []SV) []*State {
	switch b.Name() {
	case "len":
		switch {
		case a[0].K == KSlice:
			st.vals[c] = Scalar(a[0].Len)
		case a[0].K == KScalar && a[0].T.Sort == SStr:
			st.vals[c] = Scalar(ex.define(st, c.Name(), App(SInt, "f_strlen", a[0].T)))
		case a[0].K == KScalar && classify(c.Call.Args[0].Type()).What == "map":
			ex.declareFun("f_maplen", []string{SASB}, SInt)
			t := ex.define(st, c.Name(), App(SInt, "f_maplen", Select(st.heap["MDom"], a[0].T)))
			st.assume(Ge(t, IntLit(0)))
			st.vals[c] = Scalar(t)
		default:
			panic(unsupported("len of unsupported operand"))
		}
	case "cap":
		if a[0].K != KSlice {
			panic(unsupported("cap of unsupported operand"))
		}
		st.vals[c] = Scalar(a[0].Cap)
	case "ssa:deferstack":
		st.vals[c] = SV{K: KUnit}
	case "append":
		if ex.isInit {
			// keep the initialiser single-path: the variable it feeds stays unknown (and is reported)
			panic(unsupported("append in a package-level initialiser"))
		}
		return ex.callAppend(st, c, a)
	case "copy":
		// copy(dst, src): the first min(len dst, len src) bytes of dst become the
		// (old) first bytes of src (memmove semantics); the rest of dst's block is unchanged
		dst, src := a[0], a[1]
		if dst.K != KSlice || dst.Elem != "byte" {
			panic(unsupported("copy on non-byte slices"))
		}
		var srcBytes, srcLen Term
		switch {
		case src.K == KSlice && src.Elem == "byte":
			srcBytes, srcLen = ex.sliceBytes(st, src), src.Len
		case src.K == KScalar && src.T.Sort == SStr:
			srcBytes = App(SBytes, "f_bytesOf", src.T)
			srcLen = App(SInt, "f_blen", srcBytes)
		default:
			panic(unsupported("copy from an unsupported source"))
		}
		n := ex.define(st, "copied", Ite(Lt(dst.Len, srcLen), dst.Len, srcLen))
		st.assume(Ge(n, IntLit(0)))
		content := ex.define(st, "copybytes", App(SBytes, "f_bsub", srcBytes, IntLit(0), n))
		ex.writeBytes(st, SV{K: KSlice, Elem: "byte", Ref: dst.Ref, Off: dst.Off, Len: n, Cap: dst.Cap}, content, c)
		st.vals[c] = Scalar(n)
	default:
		panic(unsupported("builtin " + b.Name()))
	}
	return nil
}

// append(s, t...) for byte slices: in place when capacity suffices, fresh otherwise.
func (ex *Exec) callAppend(st *State, c *ssa.Call, a []SV) []*State {
	s, t := a[0], a[1]
	if s.K != KSlice || s.Elem != "byte" {
		panic(unsupported("append on non-byte slice"))
	}
	var tContent, tLen Term
	switch {
	case t.K == KSlice:
		tContent, tLen = ex.sliceBytes(st, t), t.Len
	case t.K == KScalar && t.T.Sort == SStr:
		tContent = App(SBytes, "f_bytesOf", t.T)
		tLen = App(SInt, "f_blen", tContent)
	default:
		panic(unsupported("append operand"))
	}
	newLen := ex.define(st, "applen", Add(s.Len, tLen))
	content := ex.define(st, "appcontent", App(SBytes, "f_bcat", ex.sliceBytes(st, s), tContent))
	fits := Le(newLen, s.Cap)
	// in place
	s1 := st.clone()
	s1.assume(fits)
	{
		mem := Select(s1.heap["BMem"], s.Ref)
		nm := ex.fresh("bytes", SBytes)
		s1.assume(Eq(App(SInt, "f_blen", nm), App(SInt, "f_blen", mem)))
		s1.assume(Eq(App(SBytes, "f_bsub", nm, s.Off, newLen), content))
		s1.assume(Implies(Eq(tLen, IntLit(0)), Eq(nm, mem)))
		s1.heap["BMem"] = ex.define(s1, "BMem", Store(s1.heap["BMem"], s.Ref, nm))
		s1.vals[c] = SV{K: KSlice, Elem: "byte", Ref: s.Ref, Off: s.Off, Len: newLen, Cap: s.Cap}
	}
	// reallocation
	st.assume(Not(fits))
	ncap := ex.fresh("appcap", SInt)
	st.assume(Ge(ncap, newLen))
	r := ex.allocRef(st)
	full := ex.fresh("bytes", SBytes)
	st.assume(Eq(App(SInt, "f_blen", full), ncap))
	st.assume(Eq(App(SBytes, "f_bsub", full, IntLit(0), newLen), content))
	st.heap["BMem"] = ex.define(st, "BMem", Store(st.heap["BMem"], r, full))
	st.vals[c] = SV{K: KSlice, Elem: "byte", Ref: r, Off: IntLit(0), Len: newLen, Cap: ncap}
	return []*State{s1, st}
}

func (ex *Exec) callStatic(st *State, c *ssa.Call, callee *ssa.Function, args []SV) []*State {
	full := callee.String()
	if ex.isInit && callee.Name() == "init" && callee.Pkg != ex.fn.Pkg {
		st.vals[c] = SV{K: KUnit}
		return nil
	}
	if full == "(*sync.Once).Do" {
		return ex.callOnceDo(st, c, args)
	}
	if ex.p.isOurPkg(callee.Pkg) || (callee.Parent() != nil && ex.p.isOurPkg(callee.Parent().Pkg)) {
		return ex.callContract(st, c, callee, args)
	}
	if fc := ex.p.Contracts.Funcs[ex.p.contractName(callee)]; fc != nil && callee.Blocks != nil {
		// a dependency function that is itself under contract (its body is verified against it)
		ex.p.provedDeps[full] = true
		return ex.callContract(st, c, callee, args)
	}
	h := deps[full]
	if h == nil {
		ex.failObl("dep", "uncontracted/"+full, "call to a dependency function without an assumed contract", ex.fnTags(), c)
		rsv := ex.freshOfType(st, "r_"+callee.Name(), c.Type(), false)
		if cl := classify(c.Type()); ex.isInit && cl.What == "iface" && rsv.K == KScalar {
			st.assume(And(Gt(rsv.T, IntLit(0)), Lt(rsv.T, IntLit(20))))
		}
		st.vals[c] = rsv
		// a function of another package can only reach what it is handed: the
		// objects reachable from its arguments become unknown, nothing else
		ex.havocReachable(st, args, &c.Call)
		return nil
	}
	ex.noteDep(full)
	st.vals[c] = h.fn(ex, st, c, args)
	return nil
}

// callOnceDo: sync.Once contract: if !done runs f exactly once, then done.
func (ex *Exec) callOnceDo(st *State, c *ssa.Call, a []SV) []*State {
	ex.noteDep("(*sync.Once).Do")
	if a[0].K != KPtr || a[0].Ptr.Kind != PGlobal {
		panic(unsupported("sync.Once that is not a package-level variable"))
	}
	if a[1].K != KFunc || a[1].Fn == nil {
		panic(unsupported("Once.Do with a dynamic function"))
	}
	id := IntLit(int64(ex.p.onceID(a[0].Ptr.Global)))
	done := Select(st.heap["Done"], id)
	// fork: already done / first use
	s1 := st.clone()
	s1.assume(done)
	s1.vals[c] = SV{K: KUnit}
	st.assume(Not(done))
	ex.inOnce = true
	forks := ex.callContract(st, c, a[1].Fn, nil)
	ex.inOnce = false
	out := []*State{s1}
	finish := func(s *State) {
		s.heap["Done"] = ex.define(s, "Done", Store(s.heap["Done"], id, TTrue))
		s.vals[c] = SV{K: KUnit}
		// the builder ran to completion and the Once is now done: the global
		// invariants hold again (the builder's exit obligations prove them in
		// exactly this state)
		for _, inv := range ex.p.Contracts.Invariants {
			s.assume(ex.specBool(s, inv.Expr, &specCtx{mode: "exitinv"}))
		}
		out = append(out, s)
	}
	if forks == nil {
		finish(st)
	} else {
		for _, s := range forks {
			finish(s)
		}
	}
	return out
}

// callContract replaces a call by the callee's contract.
func (ex *Exec) callContract(st *State, c *ssa.Call, callee *ssa.Function, args []SV) []*State {
	name := ex.p.contractName(callee)
	fc := ex.p.Contracts.Funcs[name]
	if fc == nil && ex.isInit {
		// an initialiser computed by an in-package function: its value is unknown here
		ex.failObl("contract", "uncontracted-initialiser/"+name, "package-level variable initialised by a function without contract", []string{"C07", "C14"}, c)
		sv := ex.freshOfType(st, "init_"+callee.Name(), c.Type(), false)
		if cl := classify(c.Type()); cl.What == "iface" && sv.K == KScalar {
			// assumption: an initialiser of interface type yields a non-nil value
			st.assume(And(Gt(sv.T, IntLit(0)), Lt(sv.T, IntLit(20))))
		}
		st.vals[c] = sv
		return nil
	}
	if fc == nil {
		binds := ex.curBinds
		if forks, ok := ex.inlineCall(st, c, callee, args); ok {
			return forks
		}
		ex.failObl("contract", "uncontracted-callee/"+name, "in-package callee without contract", ex.fnTags(), c)
		// a function literal may write the variables it captured
		for _, b := range binds {
			if b.K == KPtr && b.Ptr.Kind == PCell {
				if sv, ok := st.cells[b.Ptr.Cell]; ok {
					st.cells[b.Ptr.Cell] = ex.havocSV(st, "h_"+b.Ptr.Cell.Comment, sv, b.Ptr.Cell)
				}
			}
		}
		st.vals[c] = ex.freshOfType(st, "r_"+callee.Name(), c.Type(), false)
		// unknown result; only what the callee may write (syntactic may-write set) is forgotten
		touch, globals := ex.p.touchOf(callee)
		pre := st.clone()
		all := &assignSet{refs: map[string][]Term{}, globals: map[string]bool{"*": true}, all: map[string]bool{}}
		for h := range touch {
			all.all[h] = true
		}
		ex.havocHeap(st, pre, touch, globals, all, "unk")
		return nil
	}
	st.calls[name]++
	k := st.calls[name]
	site := fmt.Sprintf("%s#%d@%s", name, k, ex.posOf(c))
	pre := st.clone()
	cenv := &calleeEnv{fc: fc, params: map[string]SV{}, lets: map[string]SV{}, fn: callee}
	for i, p := range callee.Params {
		if i < len(args) {
			cenv.params[p.Name()] = args[i]
		}
	}
	ctxPre := &specCtx{mode: "callpre", callee: cenv, oldState: pre}
	// global invariants must hold at the call
	for _, inv := range ex.p.Contracts.Invariants {
		t := ex.specBool(st, inv.Expr, &specCtx{mode: "exitinv"})
		if t.S == ex.entryInv[inv.Label] {
			continue
		}
		ex.oblige(st, "call-inv", inv.Label+"@"+site, t, append([]string{"C13"}, inv.Tags...), c, inv.Src)
	}
	for _, l := range fc.Lets {
		cenv.lets[l.Name] = ex.spec(st, l.Expr, ctxPre)
	}
	for _, r := range fc.Requires {
		g := ex.specBool(st, r.Expr, ctxPre)
		ex.oblige(st, "requires", r.Label+"@"+site, g, append([]string{"C14"}, r.Tags...), c, r.Src)
		st.assume(g)
	}
	// effect
	touch, globals := ex.p.touchOf(callee)
	as := &assignSet{refs: map[string][]Term{}, globals: map[string]bool{}, all: map[string]bool{}}
	for _, e := range fc.Assigns {
		ex.addAssign(pre, as, e, ctxPre)
	}
	ex.havocHeap(st, pre, touch, globals, as, smtName(name))
	// result
	var results []SV
	res := callee.Signature.Results()
	var rv SV
	switch res.Len() {
	case 0:
		rv = SV{K: KUnit}
	case 1:
		rv = ex.freshResult(st, "r_"+smtName(name), res.At(0).Type())
		results = []SV{rv}
	default:
		rv = SV{K: KTuple}
		for i := 0; i < res.Len(); i++ {
			x := ex.freshResult(st, fmt.Sprintf("r_%s_%d", smtName(name), i), res.At(i).Type())
			rv.Tuple = append(rv.Tuple, x)
			results = append(results, x)
		}
	}
	if c != nil {
		st.vals[c] = rv
	}
	ctxPost := &specCtx{mode: "callpost", callee: cenv, oldState: pre, results: results}
	for i, r := range results {
		nm := shortName(name) + "_result"
		if i > 0 {
			nm = fmt.Sprintf("%s_result%d", shortName(name), i)
		}
		st.ghosts[nm] = r
		st.ghosts[fmt.Sprintf("%s_%d", nm, k)] = r
	}
	for _, g := range fc.Ghosts {
		gname, gsort := ghostNameSort(g.Name)
		if gsort == "" {
			panic(unsupported("ghost " + gname + " of " + name + " needs a sort"))
		}
		gv := Scalar(ex.fresh("ghost_"+smtName(name)+"_"+gname, sortByName(gsort)))
		ctxPost.ghosts = appendGhost(ctxPost.ghosts, gname, gv)
		st.ghosts[shortName(name)+"_"+gname] = gv
		st.ghosts[fmt.Sprintf("%s_%s_%d", shortName(name), gname, k)] = gv
	}
	for _, e := range fc.Ensures {
		st.assume(ex.specBool(st, e.Expr, ctxPost))
	}
	for _, e := range fc.Derives {
		st.assume(ex.specBool(st, e.Expr, ctxPost))
	}
	if !ex.inOnce {
		for _, inv := range ex.p.Contracts.Invariants {
			st.assume(ex.specBool(st, inv.Expr, &specCtx{mode: "exitinv"}))
		}
	}
	ex.p.usedContracts[name] = true
	return ex.applySplitsOrNil(st, fmt.Sprintf("after call %s#%d", shortName(name), k), c)
}

func (ex *Exec) applySplitsOrNil(st *State, anchor string, c ssa.Instruction) []*State {
	if ex.fc == nil {
		return nil
	}
	has := false
	for _, sd := range ex.fc.Splits {
		if sd.Anchor == anchor {
			has = true
		}
	}
	for _, ad := range ex.fc.Asserts {
		if ad.Anchor == anchor {
			has = true
		}
	}
	if !has {
		return nil
	}
	return ex.applySplits(st, anchor, c)
}

func shortName(n string) string {
	if k := strings.LastIndex(n, "."); k >= 0 {
		return n[k+1:]
	}
	return n
}

func sortByName(s string) string {
	switch s {
	case "Int", "Bool", "Str", "Bytes", "SSeq", "Err", "Any":
		return s
	}
	return s
}

// freshResult: result value of a contracted call; fresh references are
// constrained by the ensures clauses (fresh(result)), not here.
func (ex *Exec) freshResult(st *State, base string, t types.Type) SV {
	sv := ex.freshOfType(st, base, t, false)
	c := classify(t)
	if c.K == KSlice {
		st.assume(Lt(sv.Ref, st.next))
	}
	if c.What == "bigint" || c.What == "map" || c.What == "iface" {
		st.assume(Lt(sv.T, st.next))
	}
	return sv
}

// inlineCall executes a small helper without contract in place of the call:
// only loop-free, non-recursive, defer-free functions of the package, to a
// depth of three. Its safety obligations are generated at the call site's
// function; its locals disappear when it returns.
func (ex *Exec) inlineCall(st *State, c *ssa.Call, callee *ssa.Function, args []SV) ([]*State, bool) {
	binds := ex.curBinds
	ex.curBinds = nil
	if ex.inlineDepth >= 3 || !inlinable(callee) || len(binds) != len(callee.FreeVars) {
		return nil, false
	}
	if len(args) != len(callee.Params) {
		return nil, false
	}
	for i, p := range callee.Params {
		st.vals[p] = args[i]
	}
	for i, fv := range callee.FreeVars {
		st.vals[fv] = binds[i]
	}
	// loops of the helper get guessed clauses (infer.go)
	ex.addLoops(callee)
	var rets []inlineRet
	saved := ex.collector
	savedDefers := st.defers
	st.defers = nil
	ex.collector = &rets
	ex.inlineDepth++
	ex.runBlock(st, callee.Blocks[0], 0)
	ex.inlineDepth--
	ex.collector = saved
	var out []*State
	for _, r := range rets {
		s := r.st
		s.defers = savedDefers
		for a := range s.cells {
			if a.Parent() == callee {
				delete(s.cells, a)
			}
		}
		if c != nil {
			switch len(r.results) {
			case 0:
				s.vals[c] = SV{K: KUnit}
			case 1:
				s.vals[c] = r.results[0]
			default:
				s.vals[c] = SV{K: KTuple, Tuple: r.results}
			}
		}
		out = append(out, s)
	}
	ex.p.inlined[ex.p.contractName(callee)] = true
	if len(out) == 0 {
		// every path of the helper ended in a reported failure
		st.dead = true
		return []*State{}, true
	}
	return out, true
}
