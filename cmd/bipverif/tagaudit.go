package main

// tagaudit: for every property P and every function with a P-tagged ensures
// clause, list the ensures clauses of its (transitive) in-package callees that
// do NOT carry P. Callers assume all clauses of a callee, so each line is a
// clause that P's proof may rely on without P's check re-proving it; the list
// is reviewed by hand (DESIGN.md 10).

import (
	"fmt"
	"sort"
	"strings"

	"golang.org/x/tools/go/ssa"
)

func cmdTagAudit() {
	p, err := loadAll()
	if err != nil {
		fmt.Println(err)
		return
	}
	byName := map[string]*ssa.Function{}
	for _, f := range p.allFunctions() {
		byName[p.contractName(f.fn)] = f.fn
	}
	for n := range p.Contracts.Funcs {
		if f := p.depFunction(n); f != nil {
			byName[n] = f
		}
	}
	callees := func(fn *ssa.Function) []string {
		seen := map[string]bool{}
		for _, b := range fn.Blocks {
			for _, in := range b.Instrs {
				c, ok := in.(*ssa.Call)
				if !ok || c.Call.IsInvoke() {
					continue
				}
				var tgt *ssa.Function
				if f, ok := c.Call.Value.(*ssa.Function); ok {
					tgt = f
					if f.String() == "(*sync.Once).Do" && len(c.Call.Args) == 2 {
						if lit, ok := c.Call.Args[1].(*ssa.Function); ok {
							tgt = lit
						}
					}
				}
				if tgt == nil {
					continue
				}
				n := p.contractName(tgt)
				if p.Contracts.Funcs[n] != nil {
					seen[n] = true
				}
			}
		}
		var out []string
		for n := range seen {
			out = append(out, n)
		}
		sort.Strings(out)
		return out
	}
	has := func(tags []string, t string) bool {
		for _, x := range tags {
			if x == t {
				return true
			}
		}
		return false
	}
	for i := 1; i <= 17; i++ {
		prop := fmt.Sprintf("C%02d", i)
		var roots []string
		for n, fc := range p.Contracts.Funcs {
			for _, e := range fc.Ensures {
				if has(e.Tags, prop) {
					roots = append(roots, n)
					break
				}
			}
		}
		sort.Strings(roots)
		visited := map[string]bool{}
		var missing []string
		var walk func(n string)
		walk = func(n string) {
			if visited[n] {
				return
			}
			visited[n] = true
			fn := byName[n]
			if fn == nil {
				return
			}
			for _, c := range callees(fn) {
				for _, e := range p.Contracts.Funcs[c].Ensures {
					if !has(e.Tags, prop) {
						missing = append(missing, c+"/"+e.Label+" ["+strings.Join(e.Tags, ",")+"]")
					}
				}
				walk(c)
			}
		}
		for _, r := range roots {
			walk(r)
		}
		sort.Strings(missing)
		var uniq []string
		for i, m := range missing {
			if i == 0 || missing[i-1] != m {
				uniq = append(uniq, m)
			}
		}
		fmt.Printf("%s roots=%d callee clauses without the tag: %d\n", prop, len(roots), len(uniq))
		for _, m := range uniq {
			fmt.Println("    " + m)
		}
	}
}

// inheritTags: a caller's proof assumes every clause of its callees, so every
// obligation of a callee supports the properties its (transitive) callers'
// clauses are tagged with. The written tags stay the primary record; this
// closure makes a property's check also report a callee obligation whose
// written tags forgot that property.
func (p *Program) inheritTags(obls []*Obligation) int {
	byName := map[string]*ssa.Function{}
	for _, f := range p.allFunctions() {
		byName[p.contractName(f.fn)] = f.fn
	}
	for n := range p.Contracts.Funcs {
		if f := p.depFunction(n); f != nil {
			byName[n] = f
		}
	}
	calleesOf := func(fn *ssa.Function) []string {
		seen := map[string]bool{}
		var visit func(fn *ssa.Function, depth int)
		visit = func(fn *ssa.Function, depth int) {
			for _, b := range fn.Blocks {
				for _, in := range b.Instrs {
					var cc *ssa.CallCommon
					switch c := in.(type) {
					case *ssa.Call:
						cc = &c.Call
					case *ssa.Defer:
						cc = &c.Call
					}
					if cc == nil || cc.IsInvoke() {
						continue
					}
					var tgt *ssa.Function
					switch f := cc.Value.(type) {
					case *ssa.Function:
						tgt = f
						if f.String() == "(*sync.Once).Do" && len(cc.Args) == 2 {
							switch lit := cc.Args[1].(type) {
							case *ssa.Function:
								tgt = lit
							case *ssa.MakeClosure:
								tgt, _ = lit.Fn.(*ssa.Function)
							}
						}
					case *ssa.MakeClosure:
						tgt, _ = f.Fn.(*ssa.Function)
					}
					if tgt == nil || tgt.Blocks == nil {
						continue
					}
					n := p.contractName(tgt)
					if p.Contracts.Funcs[n] != nil {
						seen[n] = true
					} else if depth < 3 && (p.isOurPkg(tgt.Pkg) || (tgt.Parent() != nil && p.isOurPkg(tgt.Parent().Pkg))) {
						// a helper executed inline: its callees are the caller's
						visit(tgt, depth+1)
					}
				}
			}
		}
		visit(fn, 0)
		var out []string
		for n := range seen {
			out = append(out, n)
		}
		sort.Strings(out)
		return out
	}
	inherit := map[string]map[string]bool{}
	for i := 1; i <= 16; i++ {
		prop := fmt.Sprintf("C%02d", i)
		visited := map[string]bool{}
		var walk func(n string)
		walk = func(n string) {
			if visited[n] {
				return
			}
			visited[n] = true
			fn := byName[n]
			if fn == nil {
				return
			}
			for _, c := range calleesOf(fn) {
				if inherit[c] == nil {
					inherit[c] = map[string]bool{}
				}
				inherit[c][prop] = true
				walk(c)
			}
		}
		for n, fc := range p.Contracts.Funcs {
			for _, e := range fc.Ensures {
				if hasStr(e.Tags, prop) {
					walk(n)
					break
				}
			}
		}
	}
	added := 0
	for _, o := range obls {
		props := inherit[o.Fn]
		if props == nil || o.Kind == "cover" || o.Kind == "cover-return" || o.Kind == "cover-goal" {
			continue
		}
		if len(o.Tags) == 1 && o.Tags[0] == "C17" {
			continue
		}
		for prop := range props {
			if !hasStr(o.Tags, prop) {
				o.Tags = append(o.Tags, prop)
				added++
			}
		}
		sort.Strings(o.Tags)
	}
	return added
}

func hasStr(xs []string, x string) bool {
	for _, y := range xs {
		if y == x {
			return true
		}
	}
	return false
}
