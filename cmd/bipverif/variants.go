package main

// Proof alternatives.
//
// A loop invariant describes one way of computing a value. A rewrite of the
// loop that computes the same value another way (Horner accumulation instead
// of one shifted summand per word, say) keeps every postcondition true but
// needs another invariant. A contract may therefore carry named alternatives:
//
//	//@   alt horner: loop 1 invariant value: val(entBig) == horner(t, lg, iter)
//
// An alternative is a set of clauses that replace the like-named clauses of
// the base contract (loop invariants by label, a loop's unfold list, a split
// by anchor). Requires and ensures cannot be replaced: what a function
// promises its callers is the same under every alternative, so callers are
// never re-verified. The base proof is tried first; only when an obligation of
// that function fails is the function generated again under each alternative,
// and an alternative is accepted only when *every* obligation it generates for
// that function (all tags, covers included) is discharged. If none is, the
// failures of the base proof are the ones reported.

import (
	"fmt"
	"go/ast"
	"os"
	"path/filepath"
	"strings"
)

func (fc *FuncContract) withVariant(name string) *FuncContract {
	alt := fc.Alts[name]
	if alt == nil {
		return fc
	}
	out := *fc
	out.Variant = name
	out.Alts = nil
	out.Loops = map[int]*LoopContract{}
	for n, lc := range fc.Loops {
		c := *lc
		out.Loops[n] = &c
	}
	for n, al := range alt.Loops {
		base := out.Loops[n]
		if base == nil {
			c := *al
			out.Loops[n] = &c
			continue
		}
		invs := append([]*Clause{}, base.Invariants...)
		for _, a := range al.Invariants {
			replaced := false
			for i, b := range invs {
				if b.Label == a.Label {
					c := *a
					if len(c.Tags) == 0 {
						c.Tags = b.Tags
					}
					invs[i] = &c
					replaced = true
				}
			}
			if !replaced {
				invs = append(invs, a)
			}
		}
		base.Invariants = invs
		if len(al.Unfold) > 0 {
			base.Unfold = al.Unfold
		}
		if al.Decreases != nil {
			base.Decreases = al.Decreases
		}
		base.Uses = append(append([]ast.Expr{}, base.Uses...), al.Uses...)
	}
	splits := append([]SplitDef{}, fc.Splits...)
	for _, as := range alt.Splits {
		replaced := false
		for i, b := range splits {
			if b.Anchor == as.Anchor {
				splits[i] = as
				replaced = true
			}
		}
		if !replaced {
			splits = append(splits, as)
		}
	}
	out.Splits = splits
	out.Asserts = append(append([]AssertDef{}, fc.Asserts...), alt.Asserts...)
	return &out
}

// tryVariants: for every function under contract that has proof alternatives
// and at least one failed obligation among all (solved) obligations, generate
// and solve the function again under each alternative. Returns, per function,
// the obligations of the accepted alternative (tags copied from the base
// obligations of the same name).
func (p *Program) tryVariants(all []*Obligation, opts checkOpts, work string) map[string][]*Obligation {
	accepted := map[string][]*Obligation{}
	p.variantLog = nil
	for _, n := range p.Contracts.Order {
		fc := p.Contracts.Funcs[n]
		if len(fc.AltOrder) == 0 {
			continue
		}
		failed := false
		baseTags := map[string][]string{}
		var fnTags []string
		for _, o := range all {
			if o.Fn != n || !strings.HasPrefix(o.Name, n+"/") {
				continue
			}
			baseTags[o.Name] = o.Tags
			if len(o.Tags) > len(fnTags) {
				fnTags = o.Tags
			}
			if !strings.HasPrefix(o.Kind, "cover") && !o.ok() {
				failed = true
			}
		}
		if !failed {
			continue
		}
		for _, v := range fc.AltOrder {
			p.Contracts.Funcs[n] = fc.withVariant(v)
			vo := p.generate(n)
			p.Contracts.Funcs[n] = fc
			var mine []*Obligation
			for _, o := range vo {
				if o.Fn != n {
					continue
				}
				if t, ok := baseTags[o.Name]; ok {
					o.Tags = t
				} else if len(o.Tags) == 0 {
					o.Tags = fnTags
				}
				o.Variant = v
				mine = append(mine, o)
			}
			wd := filepath.Join(work, "alt-"+v)
			_ = os.MkdirAll(wd, 0o755)
			solveAllTier(mine, opts, wd)
			good, bad := 0, ""
			for _, o := range mine {
				if o.Kind == "cover-return" || o.Kind == "cover-goal" {
					continue
				}
				if o.ok() {
					good++
				} else if bad == "" {
					bad = o.Name + " " + o.Reason + " " + o.Result.Status
				}
			}
			if bad == "" && good > 0 {
				accepted[n] = mine
				p.variantLog = append(p.variantLog, fmt.Sprintf("%s: base proof failed, alternative %q accepted (%d obligations, all discharged)", n, v, good))
				fmt.Printf("bipverif: %s verified under proof alternative %q (%d obligations)\n", n, v, good)
				break
			}
			p.variantLog = append(p.variantLog, fmt.Sprintf("%s: alternative %q rejected (first undischarged: %s)", n, v, bad))
		}
	}
	return accepted
}

// replaceByVariants substitutes, in a list of obligations, those of functions
// with an accepted alternative (selected by keep).
func replaceByVariants(list []*Obligation, accepted map[string][]*Obligation, keep func(*Obligation) bool) []*Obligation {
	if len(accepted) == 0 {
		return list
	}
	var out []*Obligation
	for _, o := range list {
		if _, ok := accepted[o.Fn]; ok && strings.HasPrefix(o.Name, o.Fn+"/") {
			continue
		}
		out = append(out, o)
	}
	for _, vo := range accepted {
		for _, o := range vo {
			if keep(o) {
				out = append(out, o)
			}
		}
	}
	return out
}
