//go:build verif

// Contracts of two functions of package io (Go standard library) whose
// BODIES are verified by /verif, so that the fragmentation clause of C06 does
// not rest on an assumed contract of io.ReadFull: what is assumed instead is
// the stream contract of a source's Read method (see deps.go, "invoke
// io.Reader.Read"). The file is comment-only and is not part of any build.

package contracts

//@ func io.ReadAtLeast
//@   requires r != nil
//@   let p0 = pos(r)
//@   assigns RPos[r], BMem[buf]
//@   ensures [C02,C06,C07,C09] short-buffer: implies(len(buf) < min, n == 0 && err != nil && pos(r) == p0)
//@   ensures [C02,C06,C07,C09] count: implies(len(buf) >= min, 0 <= n && n <= len(buf) && pos(r) == p0 + n && n <= max0(ravail(r) - p0))
//@   ensures [C02,C06,C07,C09] verdict: implies(len(buf) >= min, (err == nil) == (n >= min))
//@   ensures [C02,C06,C07,C09] live: implies(len(buf) >= min && p0 + len(buf) <= ravail(r), err == nil)
//@   ensures [C02,C06,C07,C09] data: implies(len(buf) >= min, bsub(bytes(buf), 0, n) == rseg(r, p0, n))
//@   ensures [C02,C06,C07,C09] shape: blen(mem(buf)) == old(blen(mem(buf)))
//@   use bsubNest(mem(buf), off(buf), len(buf), 0, n)
//@   loop 1 assigns RPos[r], BMem[buf]
//@   loop 1 invariant range: 0 <= n && n <= len(buf) && min <= len(buf) && n <= max0(ravail(r) - p0)
//@   loop 1 invariant position: pos(r) == p0 + n
//@   loop 1 invariant shape: blen(mem(buf)) == old(blen(mem(buf)))
//@   loop 1 invariant live: implies(p0 + len(buf) <= ravail(r), err == nil)
//@   loop 1 invariant data: bsub(mem(buf), off(buf), n) == rseg(r, p0, n)
//@   loop 1 use bsubSplit(mem(buf), off(buf), n-nn, nn)
//@   loop 1 use bsubNest(mem(buf), 0, off(buf)+(n-nn), off(buf), n-nn)
//@   loop 1 use bsubNest(athead(mem(buf)), 0, off(buf)+(n-nn), off(buf), n-nn)
//@   loop 1 use bsubNest(mem(buf), off(buf)+(n-nn), len(buf)-(n-nn), 0, nn)
//@   loop 1 use rsegSplit(r, p0, n-nn, nn)
//@   loop 1 decreases ite(err == nil && n < min, 2*(min-n), 0)

//@ func io.ReadFull
//@   requires r != nil
//@   let p0 = pos(r)
//@   assigns RPos[r], BMem[buf]
//@   ensures [C02,C06,C07,C09] full: implies(err == nil, n == len(buf) && bytes(buf) == rseg(r, p0, len(buf)) && pos(r) == p0 + len(buf))
//@   ensures [C02,C06,C07,C09] partial: implies(err != nil, 0 <= n && n < len(buf))
//@   ensures [C02,C06,C07,C09] live: implies(p0 + len(buf) <= ravail(r), err == nil)
//@   ensures [C02,C06,C07,C09] dead: implies(len(buf) > 0 && p0 + len(buf) > ravail(r), err != nil)
//@   ensures [C02,C06,C07,C09] shape: blen(mem(buf)) == old(blen(mem(buf)))
//@   use bsubFull(bytes(buf), len(buf))
