//go:build verif

package bip39

//@ func etAdd1
//@   ensures [E] ok_nowrap: implies(x < 9223372036854775807, result == x+1)
//@   ensures [E] ok_wrap: implies(x == 9223372036854775807, result == 0-9223372036854775808)
//@   ensures [E] bad_always_plus1: result == x+1
//@   ensures [E] bad_monotone: result > x

//@ func etDiv
//@   requires b != 0
//@   ensures [E] ok_trunc_neg: implies(a == 0-7 && b == 2, result == 0-3)
//@   ensures [E] ok_trunc_negdiv: implies(a == 7 && b == 0-2, result == 0-3)
//@   ensures [E] ok_minint: implies(a == 0-9223372036854775808 && b == 0-1, result == 0-9223372036854775808)
//@   ensures [E] bad_floor: implies(a == 0-7 && b == 2, result == 0-4)

//@ func etRem
//@   requires b != 0
//@   ensures [E] ok_sign_follows_dividend: implies(a == 0-7 && b == 3, result == 0-1)
//@   ensures [E] bad_euclid: implies(a == 0-7 && b == 3, result == 2)

//@ func etShl
//@   ensures [E] ok_small: implies(s == 10, result == 1024)
//@   ensures [E] ok_sign_bit: implies(s == 63, result == 0-9223372036854775808)
//@   ensures [E] ok_overshift: implies(s >= 64, result == 0)
//@   ensures [E] bad_positive: result > 0

//@ func etShr
//@   ensures [E] ok_arith: implies(x == 0-8 && s == 1, result == 0-4)
//@   ensures [E] ok_arith_floor: implies(x == 0-7 && s == 1, result == 0-4)
//@   ensures [E] ok_overshift_neg: implies(x < 0 && s >= 64, result == 0-1)
//@   ensures [E] bad_logical: implies(x == 0-8 && s == 1, result > 0)

//@ func etConv
//@   ensures [E] ok_reinterpret: implies(x == 0-1, result == 18446744073709551615)
//@   ensures [E] ok_identity: implies(x >= 0, result == x)
//@   ensures [E] bad_abs: implies(x == 0-1, result == 1)

//@ func etU8
//@   ensures [E] ok_wrap: implies(x == 100, result == 44)
//@   ensures [E] ok_nowrap: implies(x == 5, result == 205)
//@   ensures [E] bad_nowrap: result == x + 200

//@ func etNarrow
//@   ensures [E] ok_wrap: implies(x == 200, result == 0-56)
//@   ensures [E] ok_small: implies(x == 0-3, result == 0-3)
//@   ensures [E] bad_keep: implies(x == 200, result == 200)

//@ func etIndex
//@   requires 0 <= i && i < len(b)
//@   ensures [E] ok_dummy: true

//@ func etSlice
//@   requires 0 <= lo && lo <= hi && hi <= cap(b)
//@   ensures [E] ok_len: result == hi - lo
//@   ensures [E] bad_len: result == hi

//@ func etSum
//@   requires 0 <= n && n < 1000000
//@   ensures [E] ok_closed_form: 2*result == n*(n-1)
//@   ensures [E] bad_closed_form: 2*result == n*(n+1) && n > 0
//@   loop 1 invariant ok_inv: 0 <= i && i <= n && 2*s == i*(i-1)
//@   loop 1 decreases n - i

//@ func etDivUnguarded
//@   ensures [E] ok_dummy: true

//@ func etMake
//@   ensures [E] ok_dummy: true

//@ func etMapWrite
//@   ensures [E] ok_dummy: true

//@ func etWipeLocal
//@   requires 0 <= n && n < 1000000
//@   ensures [E] ok_len: result == n
//@   ensures [E] bad_len: result == n + 1

//@ func etWipeArg
//@   ensures [E] ok_len: result == len(b)

//@ func etDeferResult
//@   requires x < 1000
//@   ensures [E] ok_plus1: result == x + 1
//@   ensures [E] bad_same: result == x

//@ func etCapture
//@   requires x < 1000
//@   ensures [E] ok_plus2: result == x + 2
//@   ensures [E] bad_same: result == x

//@ func etUseFill
//@   requires 0 <= n && n < 1000000
//@   ensures [E] ok_len: result == n

//@ func etUseFillOff
//@   requires 0 <= n && n < 1000000
//@   ensures [E] ok_len: result == n

//@ func etUseStuck
//@   requires 0 <= n && n < 1000000
//@   ensures [E] ok_len: result == n

//@ func etUseFillDown
//@   requires 0 <= n && n < 1000000
//@   ensures [E] ok_len: result == n

//@ func etArr
//@   requires 0 <= i && i < 4
//@   ensures [E] ok_written: implies(i == 1, result == 7)
//@   ensures [E] ok_zero: implies(i == 2, result == 0)
//@   ensures [E] bad_all: result == 7

//@ func etArrOOB
//@   ensures [E] ok_dummy: true

//@ func etArrSlice
//@   ensures [E] ok_alias: result == 9 + 3 + 6
//@   ensures [E] bad_noalias: result == 0 + 3 + 6

//@ func etArrCopy
//@   ensures [E] ok_value_semantics: result == 0
//@   ensures [E] bad_alias: result == 1

//@ func etAnd3
//@   ensures [E] ok_neg: implies(x == 0-1, result == 3)
//@   ensures [E] ok_pos: implies(x == 6, result == 2)
//@   ensures [E] ok_mult4: implies(x == 0-8, result == 0)
//@   ensures [E] bad_identity: result == x

//@ func etAndVar
//@   ensures [E] ok_le: result <= x && result <= y
//@   ensures [E] bad_eq: result == x

//@ func etCopy
//@   ensures [E] ok_short: implies(len(src) <= 4, result == len(src))
//@   ensures [E] ok_long: implies(len(src) > 4, result == 4)
//@   ensures [E] bad_len: result == len(src)

//@ func etCopyStr
//@   ensures [E] ok_count_and_untouched: result == 200
//@   ensures [E] bad_count: result == 300

//@ func etSumVia
//@   requires 0 <= n && n < 1000000
//@   ensures [E] ok_closed_form: 2*result == n*(n-1)
//@   ensures [E] bad_closed_form: 2*result == n*(n+1) && n > 0
//@   loop 1 invariant ok_inv: 0 <= i && i <= n && 2*s == i*(i-1)
//@   loop 1 decreases n - i

//@ func etSumThenWipe
//@   requires 0 <= n && n < 1000000
//@   assigns BMem[buf]
//@   ensures [E] ok_closed_form: 2*result == n*(n-1)
//@   loop 1 invariant ok_inv: 0 <= i && i <= n && 2*s == i*(i-1)
//@   loop 1 decreases n - i

//@ func etAltFits
//@   requires n >= 0 && n < 1000
//@   ensures ok_alt_result: result == 2*n
//@   loop 1 invariant v: 0 <= i && i <= n && s == i
//@   alt twice: loop 1 invariant v: 0 <= i && i <= n && s == 2*i
//@   loop 1 decreases n - i

//@ func etAltNoneFits
//@   requires n >= 0 && n < 1000
//@   ensures bad_alt_result: result == 2*n
//@   loop 1 invariant v: 0 <= i && i <= n && s == i
//@   alt twice: loop 1 invariant v: 0 <= i && i <= n && s == 2*i
//@   loop 1 decreases n - i

//@ func etAltTooWeak
//@   requires n >= 0 && n < 1000
//@   ensures bad_alt_weak: result == 2*n
//@   loop 1 invariant v: 0 <= i && i <= n && s == i
//@   alt weak: loop 1 invariant v: 0 <= i && i <= n && s >= 0
//@   loop 1 decreases n - i
