//go:build verif

package bip39

// Engine semantics self-test (copied next to the library in a scratch tree by
// `bipverif engine-selftest`; never part of /repo). Each function has clauses
// labelled ok_* (must be discharged) and bad_* (must NOT be discharged): a
// generator that got Go's integer, slice or loop semantics wrong would prove a
// bad_ clause or fail an ok_ one.

func etAdd1(x int) int { return x + 1 }

func etDiv(a, b int) int { return a / b }

func etRem(a, b int) int { return a % b }

func etShl(s uint) int64 { return 1 << s }

func etShr(x int64, s uint) int64 { return x >> s }

func etConv(x int) uint { return uint(x) }

func etU8(x uint8) uint8 { return x + 200 }

func etNarrow(x int) int8 { return int8(x) }

func etIndex(b []byte, i int) byte { return b[i] }

func etSlice(b []byte, lo, hi int) int { return len(b[lo:hi]) }

func etSum(n int) int {
	s := 0
	for i := 0; i < n; i++ {
		s += i
	}
	return s
}

func etDivUnguarded(a, b int) int { return a / b }

func etMake(n int) int { return len(make([]byte, n)) }

func etMapWrite(k string) {
	var m map[string]int64
	m[k] = 1
}

// --- code without clauses: executed where it is called, loop clauses guessed ---

// a deferred function literal that wipes a local buffer after the result has been computed
func etWipeLocal(n int) (r int) {
	buf := make([]byte, n)
	defer func() {
		for i := range buf {
			buf[i] = 0
		}
	}()
	r = len(buf)
	return
}

// the same wipe on the CALLER's slice: a frame violation
func etWipeArg(b []byte) int {
	defer func() {
		for i := range b {
			b[i] = 0
		}
	}()
	return len(b)
}

// a deferred literal changes the named result after the return statement has set it
func etDeferResult(x int) (r int) {
	defer func() { r = r + 1 }()
	return x
}

// a function literal called in place that captures and updates a local
func etCapture(x int) int {
	y := x
	func() { y = y + 2 }()
	return y
}

// helper with a loop and no contract: the index must be shown in bounds from the guessed clauses
func etFill(b []byte, v byte) {
	for i := 0; i < len(b); i++ {
		b[i] = v
	}
}

func etUseFill(n int) int {
	b := make([]byte, n)
	etFill(b, 7)
	return len(b)
}

// off-by-one in a helper without contract: the guessed clauses must not hide it
func etFillOff(b []byte, v byte) {
	for i := 0; i <= len(b); i++ {
		b[i] = v
	}
}

func etUseFillOff(n int) int {
	b := make([]byte, n)
	etFillOff(b, 7)
	return len(b)
}

// a loop whose counter does not move towards its bound: no variant can be shown
func etStuck(b []byte) {
	for i := 0; i < len(b); {
		b[i] = 0
	}
}

func etUseStuck(n int) int {
	b := make([]byte, n)
	etStuck(b)
	return len(b)
}

// down-counting helper
func etFillDown(b []byte) {
	for i := len(b) - 1; i >= 0; i-- {
		b[i] = 1
	}
}

func etUseFillDown(n int) int {
	b := make([]byte, n)
	etFillDown(b)
	return len(b)
}

// --- local byte arrays ---

func etArr(i int) byte {
	var a [4]byte
	a[1] = 7
	return a[i]
}

func etArrOOB(i int) byte {
	var a [4]byte
	return a[i]
}

func etArrSlice() int {
	var a [8]byte
	s := a[2:5]
	s[0] = 9
	return int(a[2]) + len(s) + cap(s)
}

// arrays are values: the copy does not alias
func etArrCopy() int {
	var a [4]byte
	b := a
	b[0] = 1
	return int(a[0])
}

func etAnd3(x int) int { return x & 3 }

func etAndVar(x, y uint8) uint8 { return x & y }

func etCopy(src []byte) int {
	var a [4]byte
	return copy(a[:], src)
}

func etCopyStr() int {
	var a [4]byte
	n := copy(a[1:], "hi")
	return n*100 + int(a[0])
}

// --- written loop clauses follow the loop ---

// the loop lives in a helper without contract: the caller's clauses move with it
func etSumVia(n int) int { return etSumLoop(n) }

func etSumLoop(n int) int {
	s := 0
	for i := 0; i < n; i++ {
		s += i
	}
	return s
}

// a second loop that calls nothing is set aside; the written clauses stay with the first
func etSumThenWipe(n int, buf []byte) int {
	for k := range buf {
		buf[k] = 0
	}
	s := 0
	for i := 0; i < n; i++ {
		s += etAdd1(i) - 1
	}
	return s
}

// --- proof alternatives ---

// the base invariant describes another loop (s == i); the alternative fits this one
func etAltFits(n int) int {
	s := 0
	for i := 0; i < n; i++ {
		s += 2
	}
	return s
}

// neither the base invariant nor the alternative fits: the failures must stay
func etAltNoneFits(n int) int {
	s := 0
	for i := 0; i < n; i++ {
		s += 3
	}
	return s
}

// the alternative's invariant is inductive but too weak for the postcondition: it must be rejected
func etAltTooWeak(n int) int {
	s := 0
	for i := 0; i < n; i++ {
		s += 3
	}
	return s
}
