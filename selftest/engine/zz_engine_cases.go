//go:build verif

package bip39

// Engine semantics self-test (copied next to the library in a scratch tree by
// `bipverif engine-selftest`; never part of /repo). Each function has clauses
// labelled ok_* (must be discharged) and bad_* (must NOT be discharged): a
// generator that got Go's integer, slice or loop semantics wrong would prove a
// bad_ clause or fail an ok_ one.

func etAdd1(x int) int { return x + 1 }

func etDiv(a, b int) int { return a / b }

func etRem(a, b int) int { return a % b }

func etShl(s uint) int64 { return 1 << s }

func etShr(x int64, s uint) int64 { return x >> s }

func etConv(x int) uint { return uint(x) }

func etU8(x uint8) uint8 { return x + 200 }

func etNarrow(x int) int8 { return int8(x) }

func etIndex(b []byte, i int) byte { return b[i] }

func etSlice(b []byte, lo, hi int) int { return len(b[lo:hi]) }

func etSum(n int) int {
	s := 0
	for i := 0; i < n; i++ {
		s += i
	}
	return s
}

func etDivUnguarded(a, b int) int { return a / b }

func etMake(n int) int { return len(make([]byte, n)) }

func etMapWrite(k string) {
	var m map[string]int64
	m[k] = 1
}
