package audit

// Bounded audits of the dependency contracts assumed by the proofs. Each test
// writes its counts into $VERIF_AUDIT_OUT (JSON lines) so that the evidence
// can report what was actually exercised.

import (
	"bytes"
	"crypto/hmac"
	"crypto/sha256"
	"crypto/sha512"
	"encoding/json"
	"errors"
	"fmt"
	"io"
	"math/big"
	"math/rand"
	"os"
	"strconv"
	"strings"
	"testing"
	"unicode"

	"golang.org/x/crypto/pbkdf2"
	"golang.org/x/text/unicode/norm"
)

func seed() int64 {
	n, err := strconv.ParseInt(os.Getenv("VERIF_SEED"), 10, 64)
	if err != nil {
		return 1
	}
	return n
}

func scale() int {
	if os.Getenv("VERIF_TIER") == "thorough" {
		return 10
	}
	return 1
}

func report(t *testing.T, name string, cases int, bound string) {
	f := os.Getenv("VERIF_AUDIT_OUT")
	if f == "" {
		return
	}
	fh, err := os.OpenFile(f, os.O_APPEND|os.O_CREATE|os.O_WRONLY, 0o644)
	if err != nil {
		t.Fatal(err)
	}
	defer fh.Close()
	_ = json.NewEncoder(fh).Encode(map[string]interface{}{"audit": name, "cases": cases, "bound": bound, "failed": t.Failed()})
}

func TestSHA256Streaming(t *testing.T) {
	rng := rand.New(rand.NewSource(seed()))
	n := 1000 * scale()
	for i := 0; i < n; i++ {
		data := make([]byte, rng.Intn(200))
		rng.Read(data)
		orig := append([]byte(nil), data...)
		h := sha256.New()
		pos := 0
		for pos < len(data) {
			k := 1 + rng.Intn(len(data)-pos)
			m, err := h.Write(data[pos : pos+k])
			if m != k || err != nil {
				t.Fatalf("Write returned (%d,%v) for %d bytes", m, err, k)
			}
			pos += k
		}
		s1 := h.Sum(nil)
		s2 := h.Sum(nil)
		want := sha256.Sum256(orig)
		if len(s1) != 32 || !bytes.Equal(s1, want[:]) || !bytes.Equal(data, orig) {
			t.Fatalf("streaming digest differs or argument modified")
		}
		s1[0] ^= 0xff
		if s2[0] == s1[0] && bytes.Equal(s2[1:], s1[1:]) {
			t.Fatalf("Sum(nil) results share memory")
		}
	}
	report(t, "sha256.New/Write/Sum(nil): ghost accumulator contract", n, "random splits of random data up to 200 bytes")
}

func TestBigInt(t *testing.T) {
	rng := rand.New(rand.NewSource(seed()))
	n := 10000 * scale()
	rnd := func() *big.Int {
		b := make([]byte, rng.Intn(40))
		rng.Read(b)
		x := new(big.Int).SetBytes(b)
		if rng.Intn(4) == 0 {
			x.Neg(x)
		}
		return x
	}
	for i := 0; i < n; i++ {
		x, y := rnd(), rnd()
		xs, ys := x.String(), y.String()
		// value semantics, operands unchanged, receiver returned
		z := new(big.Int)
		if r := z.Add(x, y); r != z || x.String() != xs || y.String() != ys {
			t.Fatal("Add contract")
		}
		// aliasing z == x
		xa := new(big.Int).Set(x)
		xa.Add(xa, y)
		if xa.Cmp(z) != 0 {
			t.Fatal("Add aliasing")
		}
		if y.Sign() != 0 {
			q := new(big.Int).Quo(x, y)
			r := new(big.Int).Rem(x, y)
			// truncated: x = q*y + r, |r| < |y|, sign(r) = sign(x) or 0
			chk := new(big.Int).Add(new(big.Int).Mul(q, y), r)
			if chk.Cmp(x) != 0 || r.CmpAbs(y) >= 0 || (r.Sign() != 0 && r.Sign() != x.Sign()) {
				t.Fatalf("Quo/Rem truncated contract: %v %v", x, y)
			}
			xa := new(big.Int).Set(x)
			xa.Quo(xa, y)
			if xa.Cmp(q) != 0 {
				t.Fatal("Quo aliasing")
			}
		}
		// Bytes: minimal-length big-endian magnitude; SetBytes inverse
		b := x.Bytes()
		if len(b) > 0 && b[0] == 0 {
			t.Fatal("Bytes not minimal")
		}
		if new(big.Int).SetBytes(b).CmpAbs(x) != 0 {
			t.Fatal("SetBytes(Bytes) != |x|")
		}
		if want := (x.BitLen() + 7) / 8; len(b) != want {
			t.Fatalf("len(Bytes) = %d, want %d", len(b), want)
		}
		// FillBytes
		k := len(b) + rng.Intn(5)
		buf := make([]byte, k)
		for j := range buf {
			buf[j] = 0xaa
		}
		if out := x.FillBytes(buf); k > 0 && &out[0] != &buf[0] {
			t.Fatal("FillBytes does not return buf")
		}
		if k > 0 && (new(big.Int).SetBytes(buf).CmpAbs(x) != 0) {
			t.Fatal("FillBytes value")
		}
		// And with low mask on non-negative x = mod 2^k
		if x.Sign() >= 0 {
			kk := uint(rng.Intn(17))
			mask := new(big.Int).Sub(new(big.Int).Lsh(big.NewInt(1), kk), big.NewInt(1))
			a := new(big.Int).And(x, mask)
			m := new(big.Int).Mod(x, new(big.Int).Lsh(big.NewInt(1), kk))
			if a.Cmp(m) != 0 {
				t.Fatal("And with 2^k-1 != mod 2^k")
			}
			s := uint(rng.Intn(300))
			if new(big.Int).Lsh(x, s).Cmp(new(big.Int).Mul(x, new(big.Int).Lsh(big.NewInt(1), s))) != 0 {
				t.Fatal("Lsh")
			}
			s2 := uint(rng.Intn(17))
			if new(big.Int).Rsh(x, s2).Cmp(new(big.Int).Div(x, new(big.Int).Lsh(big.NewInt(1), s2))) != 0 {
				t.Fatal("Rsh")
			}
		}
		// QuoRem = (Quo, Rem), operands read before the receivers are written
		if y.Sign() != 0 {
			q0, r0 := new(big.Int).Quo(x, y), new(big.Int).Rem(x, y)
			q, r := new(big.Int).QuoRem(x, y, new(big.Int))
			if q.Cmp(q0) != 0 || r.Cmp(r0) != 0 {
				t.Fatal("QuoRem != (Quo, Rem)")
			}
			xa := new(big.Int).Set(x)
			if q2, r2 := xa.QuoRem(xa, y, new(big.Int)); q2.Cmp(q0) != 0 || r2.Cmp(r0) != 0 {
				t.Fatal("QuoRem aliasing z==x")
			}
			xb := new(big.Int).Set(x)
			if q3, r3 := new(big.Int).QuoRem(xb, y, xb); q3.Cmp(q0) != 0 || r3.Cmp(r0) != 0 {
				t.Fatal("QuoRem aliasing r==x")
			}
		}
		// Or of non-negative operands: bounds, and addition when the bit ranges are disjoint
		if x.Sign() >= 0 {
			ya := new(big.Int).Abs(y)
			o := new(big.Int).Or(x, ya)
			if o.Cmp(x) < 0 || o.Cmp(ya) < 0 || o.Cmp(new(big.Int).Add(x, ya)) > 0 {
				t.Fatal("Or bounds")
			}
			kk := uint(1 + rng.Intn(16))
			hi := new(big.Int).Lsh(x, kk)
			lo := new(big.Int).Rand(rng, new(big.Int).Lsh(big.NewInt(1), kk))
			if new(big.Int).Or(hi, lo).Cmp(new(big.Int).Add(hi, lo)) != 0 || new(big.Int).Or(lo, hi).Cmp(new(big.Int).Add(hi, lo)) != 0 {
				t.Fatal("Or of disjoint bit ranges != Add")
			}
			if z := new(big.Int).Set(hi); z.Or(z, lo).Cmp(new(big.Int).Add(hi, lo)) != 0 {
				t.Fatal("Or aliasing")
			}
		}
		// Int64 wraps to the low 64 bits
		lo := new(big.Int).And(new(big.Int).Abs(x), new(big.Int).SetUint64(^uint64(0))).Uint64()
		want := int64(lo)
		if x.Sign() < 0 {
			want = -want
		}
		if x.Int64() != want {
			t.Fatalf("Int64 wrap: %v -> %d want %d", x, x.Int64(), want)
		}
		if c := x.Cmp(y); (c < 0) != (new(big.Int).Sub(x, y).Sign() < 0) {
			t.Fatal("Cmp")
		}
	}
	func() {
		defer func() {
			if recover() == nil {
				t.Fatal("Quo by zero does not panic")
			}
		}()
		new(big.Int).Quo(big.NewInt(1), big.NewInt(0))
	}()
	func() {
		defer func() {
			if recover() == nil {
				t.Fatal("FillBytes with a short buffer does not panic")
			}
		}()
		big.NewInt(1 << 20).FillBytes(make([]byte, 2))
	}()
	report(t, "math/big: value semantics, aliasing, truncated Quo/Rem, minimal Bytes, FillBytes, low-mask And, Lsh/Rsh, Int64 wrap, panics", n, "random operands up to 320 bits incl. negatives and aliasing")
}

type fragReader struct {
	data   []byte
	pos    int
	frags  []int
	k      int
	failAt int
	err    error
	withN  bool
}

func (r *fragReader) Read(p []byte) (int, error) {
	n := len(p)
	if len(r.frags) > 0 {
		f := r.frags[r.k%len(r.frags)]
		r.k++
		if f > 0 && f < n {
			n = f
		}
	}
	if r.failAt >= 0 && r.pos+n >= r.failAt {
		n = r.failAt - r.pos
		if n > 0 && !r.withN {
			copy(p, r.data[r.pos:r.pos+n])
			r.pos += n
			return n, nil
		}
		if n > 0 {
			copy(p, r.data[r.pos:r.pos+n])
			r.pos += n
		}
		return n, r.err
	}
	if r.pos+n > len(r.data) {
		n = len(r.data) - r.pos
		if n <= 0 {
			return 0, io.EOF
		}
	}
	copy(p, r.data[r.pos:r.pos+n])
	r.pos += n
	return n, nil
}

func TestReadFullStreamContract(t *testing.T) {
	rng := rand.New(rand.NewSource(seed()))
	cases := 0
	// every fragmentation (composition) of up to 10 bytes
	for n := 1; n <= 10; n++ {
		data := make([]byte, n+3)
		rng.Read(data)
		for mask := 0; mask < 1<<(uint(n)-1); mask++ {
			var frags []int
			run := 1
			for i := 0; i < n-1; i++ {
				if mask>>uint(i)&1 == 1 {
					frags = append(frags, run)
					run = 1
				} else {
					run++
				}
			}
			frags = append(frags, run, n)
			r := &fragReader{data: data, frags: frags, failAt: -1}
			buf := make([]byte, n)
			m, err := io.ReadFull(r, buf)
			cases++
			if m != n || err != nil || !bytes.Equal(buf, data[:n]) || r.pos != n {
				t.Fatalf("ReadFull success contract: n=%d frags=%v -> (%d,%v) pos=%d", n, frags, m, err, r.pos)
			}
		}
	}
	// every failure point and kind for 16..32 bytes
	for _, n := range []int{16, 20, 24, 28, 32} {
		data := make([]byte, n)
		rng.Read(data)
		for k := 0; k < n; k++ {
			for _, kind := range []struct {
				e     error
				withN bool
			}{{io.EOF, false}, {io.ErrUnexpectedEOF, false}, {errors.New("x"), false}, {errors.New("x"), true}, {io.EOF, true}} {
				for _, fr := range [][]int{nil, {1}, {3, 5}} {
					r := &fragReader{data: data, frags: fr, failAt: k, err: kind.e, withN: kind.withN}
					buf := bytes.Repeat([]byte{0x55}, n)
					m, err := io.ReadFull(r, buf)
					cases++
					if err == nil || m >= n || m != k {
						t.Fatalf("ReadFull failure contract: n=%d k=%d -> (%d,%v)", n, k, m, err)
					}
					for j := m; j < n; j++ {
						if buf[j] != 0x55 {
							t.Fatalf("bytes beyond n modified")
						}
					}
				}
			}
		}
	}
	// len(buf) == 0 reads nothing
	r := &fragReader{data: []byte{1}, failAt: -1}
	if m, err := io.ReadFull(r, nil); m != 0 || err != nil || r.pos != 0 {
		t.Fatal("ReadFull with empty buffer")
	}
	report(t, "io.ReadFull stream contract (fragmentation and failure clauses of C06)", cases, "every fragmentation of <= 10 bytes; every failure point x 5 kinds x 3 fragmentations for 16..32 bytes")
}

func TestStringsAxioms(t *testing.T) {
	rng := rand.New(rand.NewSource(seed()))
	alphabet := []string{"a", "bc", "é", "語", " ", "　", "\t", "\n", "", "x y"}
	n := 10000 * scale()
	for i := 0; i < n; i++ {
		k := 1 + rng.Intn(6)
		ws := make([]string, k)
		sepfree, wsfree := true, true
		for j := range ws {
			m := rng.Intn(3)
			for q := 0; q < m; q++ {
				ws[j] += alphabet[rng.Intn(len(alphabet))]
			}
			if strings.Contains(ws[j], " ") {
				sepfree = false
			}
			if ws[j] == "" || strings.IndexFunc(ws[j], unicode.IsSpace) >= 0 {
				wsfree = false
			}
		}
		s := strings.Join(ws, " ")
		sp := strings.Split(s, " ")
		if strings.Join(sp, " ") != s || len(sp) < 1 {
			t.Fatal("join(split) != id")
		}
		for _, e := range sp {
			if strings.Contains(e, " ") {
				t.Fatal("split element contains sep")
			}
		}
		if sepfree && !equal(sp, ws) {
			t.Fatalf("split(join(ws)) != ws for sep-free ws %q", ws)
		}
		if wsfree {
			if !equal(strings.Fields(s), sp) {
				t.Fatalf("FS: fields != split for %q", s)
			}
		}
		if k >= 1 && ws[0] != "" && s == "" {
			t.Fatal("join non-empty first word is empty")
		}
	}
	report(t, "strings.Join/Split/Fields axioms (J1, J2, FS, non-empty join)", n, "random sentences over an alphabet with 4 kinds of white space")
}

func equal(a, b []string) bool {
	if len(a) != len(b) {
		return false
	}
	for i := range a {
		if a[i] != b[i] {
			return false
		}
	}
	return true
}

func TestNFKDAxioms(t *testing.T) {
	rng := rand.New(rand.NewSource(seed()))
	cases := 0
	// N1 idempotence and N2 (ASCII prefix) on every code point, alone and followed by combining marks
	marks := []string{"", "́", "̣̇", "゙", strings.Repeat("̀", 35)}
	step := 1
	if scale() == 1 {
		step = 7
	}
	for r := rune(0); r <= unicode.MaxRune; r += rune(step) {
		if r >= 0xd800 && r <= 0xdfff {
			continue
		}
		for _, m := range marks[:2+rng.Intn(3)] {
			s := string(r) + m
			d := norm.NFKD.String(s)
			cases++
			if norm.NFKD.String(d) != d {
				t.Fatalf("N1 fails on %U", r)
			}
			if norm.NFKD.String("mnemonic"+s) != "mnemonic"+d {
				t.Fatalf("N2 fails on %U", r)
			}
			if norm.NFKD.String(m+s) != norm.NFKD.String(m+s) {
				t.Fatal("nondeterministic")
			}
		}
	}
	if norm.NFKD.String("　") != " " {
		t.Fatal("nfkd(U+3000) != U+0020")
	}
	// invalid UTF-8 is total
	for i := 0; i < 1000; i++ {
		b := make([]byte, rng.Intn(12))
		rng.Read(b)
		d := norm.NFKD.String(string(b))
		if norm.NFKD.String(d) != d || norm.NFKD.String("mnemonic"+string(b)) != "mnemonic"+d {
			t.Fatalf("N1/N2 on invalid UTF-8 %x", b)
		}
		cases++
	}
	// N3j on the reference lists: sentences of list words joined by either separator
	dir := os.Getenv("VERIF_REF_DIR")
	if dir != "" {
		for _, f := range []string{"chinese_simplified", "chinese_traditional", "english", "french", "italian", "japanese", "korean", "spanish", "czech", "portuguese"} {
			data, err := os.ReadFile(dir + "/" + f + ".txt")
			if err != nil {
				t.Fatal(err)
			}
			ws := strings.Split(strings.TrimSuffix(string(data), "\n"), "\n")
			for i := 0; i < len(ws); i++ {
				a, b := ws[i], ws[(i*7+1)%len(ws)]
				for _, sep := range []string{" ", "　"} {
					s := a + sep + b + sep + a
					if norm.NFKD.String(s) != a+" "+b+" "+a {
						t.Fatalf("N3j fails for %q %q in %s", a, b, f)
					}
					cases++
				}
			}
			for i := 0; i < 200*scale(); i++ {
				k := []int{12, 15, 18, 21, 24}[rng.Intn(5)]
				sel := make([]string, k)
				for j := range sel {
					sel[j] = ws[rng.Intn(len(ws))]
				}
				if norm.NFKD.String(strings.Join(sel, "　")) != strings.Join(sel, " ") {
					t.Fatalf("N3j fails on a %d-word sentence of %s", k, f)
				}
				cases++
			}
		}
	}
	report(t, "norm.NFKD axioms N1 (idempotent), N2 (ASCII prefix \"mnemonic\"), N3j (sentence of stable words), totality on invalid UTF-8", cases, fmt.Sprintf("code points step %d with up to 35 trailing combining marks; every reference-list word in a 3-word sentence with both separators; random full sentences", step))
}

func refPBKDF2(pw, salt []byte, iter, keyLen int) []byte {
	prf := hmac.New(sha512.New, pw)
	var out []byte
	for blk := 1; len(out) < keyLen; blk++ {
		prf.Reset()
		prf.Write(salt)
		prf.Write([]byte{byte(blk >> 24), byte(blk >> 16), byte(blk >> 8), byte(blk)})
		u := prf.Sum(nil)
		tt := append([]byte(nil), u...)
		for i := 1; i < iter; i++ {
			prf.Reset()
			prf.Write(u)
			u = prf.Sum(nil)
			for k := range tt {
				tt[k] ^= u[k]
			}
		}
		out = append(out, tt...)
	}
	return out[:keyLen]
}

func TestPBKDF2(t *testing.T) {
	rng := rand.New(rand.NewSource(seed()))
	n := 20 * scale()
	for i := 0; i < n; i++ {
		pw := make([]byte, rng.Intn(300))
		salt := make([]byte, rng.Intn(300))
		rng.Read(pw)
		rng.Read(salt)
		pw0, salt0 := append([]byte(nil), pw...), append([]byte(nil), salt...)
		got := pbkdf2.Key(pw, salt, 2048, 64, sha512.New)
		if len(got) != 64 || !bytes.Equal(got, refPBKDF2(pw0, salt0, 2048, 64)) || !bytes.Equal(pw, pw0) || !bytes.Equal(salt, salt0) {
			t.Fatalf("pbkdf2.Key differs from the RFC 8018 re-implementation or modifies its arguments")
		}
	}
	// BIP39 reference vector (TREZOR passphrase)
	m := "abandon abandon abandon abandon abandon abandon abandon abandon abandon abandon abandon about"
	want := "c55257c360c07c72029aebc1b53c05ed0362ada38ead3e3e9efa3708e53495531f09a6987599d18264c1e1c92f2cf141630c7a3c4ab7c81b2f001698e7463b04"
	if fmt.Sprintf("%x", pbkdf2.Key([]byte(m), []byte("mnemonicTREZOR"), 2048, 64, sha512.New)) != want {
		t.Fatal("BIP39 reference seed vector")
	}
	report(t, "pbkdf2.Key(.., sha512.New) vs an independent RFC 8018 implementation; arguments unmodified; BIP39 reference vector", n+1, "random passwords/salts up to 300 bytes (beyond the 128-byte HMAC block)")
}

func TestErrorsFmt(t *testing.T) {
	a, b := errors.New("m"), errors.New("m")
	if a == b || !errors.Is(a, a) || errors.Is(a, b) || a.Error() != "m" {
		t.Fatal("errors.New contract")
	}
	e := fmt.Errorf("word `%s` at `%d` x", "w%s", 7)
	if e == nil || errors.Is(e, a) || e.Error() != "word `w%s` at `7` x" {
		t.Fatal("fmt.Errorf contract")
	}
	rng := rand.New(rand.NewSource(seed()))
	for i := 0; i < 1000; i++ {
		x, y := rng.Int63()-rng.Int63(), rng.Int63()-rng.Int63()
		if (strconv.FormatInt(x, 10) == strconv.FormatInt(y, 10)) != (x == y) {
			t.Fatal("itoa injective")
		}
	}
	report(t, "errors.New / fmt.Errorf(%s,%d) / strconv.FormatInt contracts", 1003, "fixed cases + 1000 random integers")
}
