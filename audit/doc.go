// Package audit holds BOUNDED audits of the assumed dependency contracts
// (DESIGN.md 2.6). They run the real dependencies against the contracts on
// generated inputs; they are reported under assumption_audits and are never
// counted as proof.
package audit

import (
	_ "golang.org/x/crypto/pbkdf2"
	_ "golang.org/x/text/unicode/norm"
)
