#!/bin/bash
# usage: bcheck.sh <file> <sed-expr> props...   (benign/other edit via sed on a scratch copy)
S=/var/tmp/bipverif-bc-$$; rm -rf $S; mkdir -p $S; rsync -a --exclude .git /repo/ $S/
f=$1; e=$2; shift 2
sed -i -E "$e" $S/$f
if diff -q /repo/$f $S/$f >/dev/null; then echo "EDIT DID NOT APPLY"; rm -rf $S; exit 3; fi
(cd $S && GOFLAGS=-mod=mod GOPROXY=off go build ./... && GOFLAGS=-mod=mod GOPROXY=off go test -count=1 . 2>&1 | tail -1) 
for p in "$@"; do
  out=$(VERIF_REPO=$S VERIF_WORK_SUFFIX=.bc$$ VERIF_NO_EVIDENCE=1 /verif/bin/bipverif check $p 2>&1); code=$?
  echo "$p exit=$code :: $(echo "$out" | grep '^VIOLATION' | sed 's/.*obligation=//' | cut -c1-80 | head -3 | tr '\n' ';')"
done
rm -rf $S /verif/work/*.bc$$ /verif/replays.bc$$
