#!/bin/bash
# usage: mut.sh <file> <sed-expr> [bipverif vc args...]   -- quick mutant probe on a scratch copy
set -e
S=/var/tmp/bipverif-mut-$$
rm -rf $S; mkdir -p $S; rsync -a --exclude .git /repo/ $S/
f=$1; e=$2; shift 2
sed -i -E "$e" $S/$f
if diff -q /repo/$f $S/$f >/dev/null; then echo "MUTATION DID NOT APPLY"; rm -rf $S; exit 3; fi
diff /repo/$f $S/$f | head -5
(cd $S && GOFLAGS=-mod=mod GOPROXY=off GOSUMDB=off GOTOOLCHAIN=local go build ./... ) || { echo "DOES NOT COMPILE"; rm -rf $S; exit 3; }
VERIF_REPO=$S VERIF_DIR=/verif /verif/bin/bipverif vc "$@" | grep -E "FAIL|^solve" | head -20
rm -rf $S
