#!/bin/bash
# usage: bencheck.sh <patch>...  : apply each (behaviour-preserving) patch to a scratch copy, run all 17 checks in one pass,
# print which checks report a violation (expected: none)
export GOFLAGS=-mod=mod GOPROXY=off GOSUMDB=off GOTOOLCHAIN=local
for patch in "$@"; do
  S=/var/tmp/bipverif-ben-$$; rm -rf $S; mkdir -p $S; rsync -a --exclude .git /repo/ $S/
  (cd $S && patch -p1 -s < $patch) || { echo "$(basename $patch): PATCH DOES NOT APPLY"; rm -rf $S; continue; }
  (cd $S && go build ./... && go build -tags verif ./... && go test -count=1 . >/dev/null 2>&1) || { echo "$(basename $patch): DOES NOT BUILD/TEST"; rm -rf $S; continue; }
  out=$(VERIF_REPO=$S VERIF_WORK_SUFFIX=.ben$$ ${BIPVERIF:-/verif/bin/bipverif} matrix 2>&1)
  echo "$(basename $patch): $(echo "$out" | grep MATRIX-SUMMARY)"
  echo "$out" | grep '^MATRIX C' | cut -c1-230 | head -6
  rm -rf $S /verif/work/*.ben$$
done
