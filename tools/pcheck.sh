#!/bin/bash
# usage: pcheck.sh <patch> props...  : apply patch to scratch copy of /repo, run given checks with bin/bipverif.new (or bin/bipverif)
B=/verif/bin/bipverif.new; [ -x $B ] || B=/verif/bin/bipverif
S=/var/tmp/bipverif-pc-$$; rm -rf $S; mkdir -p $S; rsync -a --exclude .git /repo/ $S/
patch=$1; shift
(cd $S && patch -p1 -s < $patch) || { echo "PATCH DOES NOT APPLY"; rm -rf $S; exit 3; }
for p in "$@"; do
  out=$(VERIF_REPO=$S VERIF_WORK_SUFFIX=.pc$$ VERIF_NO_EVIDENCE=1 $B check $p 2>&1); code=$?
  nv=$(echo "$out" | grep -c '^VIOLATION'); nf=$(echo "$out" | grep '^VIOLATION' | grep -vc 'no-failing-input-found')
  echo "$p exit=$code violations=$nv with-input=$nf :: $(echo "$out" | grep '^VIOLATION' | sed 's/.*obligation=//' | cut -c1-70 | head -4 | tr '\n' ';')"
done
rm -rf $S /verif/work/*.pc$$ /verif/replays.pc$$
