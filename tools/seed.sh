#!/bin/bash
# usage: seed.sh <PROP> <i>   -- confirm /tmp/mut-PROP-i.{patch,json,_demo_test.go}, run checks, store under /verif/seeded
# Confirms: applies to /repo HEAD, builds, existing tests pass, demo fails with / passes without the change.
export GOFLAGS=-mod=mod GOPROXY=off GOSUMDB=off GOTOOLCHAIN=local
P=$1; I=$2; shift 2
patch=/tmp/mut-$P-$I.patch; demo=/tmp/mut-$P-${I}_demo_test.go; meta=/tmp/mut-$P-$I.json
S=/var/tmp/bipverif-seed-$$; rm -rf $S; mkdir -p $S; rsync -a --exclude .git /repo/ $S/
cp $demo $S/zz_demo_test.go
demoname=$(grep -o 'func TestDemo[A-Za-z0-9_]*' $demo | head -1 | sed 's/func //')
(cd $S && go test -count=1 -run "^${demoname}\$" . >/tmp/seed-clean.log 2>&1); clean=$?
(cd $S && patch -p1 -s < $patch) || { echo "PATCH DOES NOT APPLY"; rm -rf $S; exit 3; }
(cd $S && go build ./... && go build -tags verif ./...) || { echo "DOES NOT COMPILE (with or without verif tag)"; rm -rf $S; exit 3; }
rm $S/zz_demo_test.go
(cd $S && go test -count=1 ./... >/tmp/seed-suite.log 2>&1); suite=$?
cp $demo $S/zz_demo_test.go
(cd $S && go test -count=1 -run "^${demoname}\$" . >/tmp/seed-mut.log 2>&1); mut=$?
rm $S/zz_demo_test.go
echo "confirm: demo-on-clean exit=$clean (want 0) suite-with-change exit=$suite (want 0) demo-with-change exit=$mut (want !=0)"
if [ $clean -ne 0 ] || [ $suite -ne 0 ] || [ $mut -eq 0 ]; then echo "NOT CONFIRMED"; tail -5 /tmp/seed-clean.log /tmp/seed-suite.log /tmp/seed-mut.log; rm -rf $S; exit 4; fi
props="$@"; [ -z "$props" ] && props="C01 C02 C03 C04 C05 C06 C07 C08 C09 C10 C11 C12 C13 C14 C15 C16 C17"
caught=""
for p in $props; do
  out=$(VERIF_REPO=$S VERIF_WORK_SUFFIX=.seed$$ VERIF_NO_EVIDENCE=1 /verif/bin/bipverif check $p 2>&1); code=$?
  nv=$(echo "$out" | grep -c '^VIOLATION'); nf=$(echo "$out" | grep '^VIOLATION' | grep -vc 'no-failing-input-found')
  if [ $code -ne 0 ]; then caught="$caught $p($nv/$nf)"; fi
  if [ "$p" = "$P" ]; then echo "$out" | grep -E '^VIOLATION|^bipverif' | cut -c1-220 | head -5; fi
done
echo "checks raising a violation (violations/with failing input):$caught"
d=/verif/seeded/$P-$I; mkdir -p $d; cp $patch $d/patch.diff; cp $demo $d/demo_test.go
python3 - "$meta" "$d/meta.json" "$P" "$I" "$caught" <<'PY'
import json,sys
src,dst,P,I,caught=sys.argv[1:6]
m=json.load(open(src))
c=[x.split('(')[0] for x in caught.split()]
out={"id":f"{P}-{I}","property":P,"summary":m.get("summary",""),"needs":m.get("needs",""),"origin":"independent sub-agent given only the property text and a scratch worktree",
 "confirmed":"applies to /repo HEAD; go build (with and without -tags verif) ok; existing suite passes; demo passes on the unchanged tree and fails with the change (tools/seed.sh)",
 "demo_cmd":"cp demo_test.go <tree>/zz_demo_test.go && go test -run TestDemo .","checks_raising_violation":c,"detail":caught.strip(),
 "expect_properties":[P] if P in c else [],"status":"caught" if P in c else "MISSED"}
json.dump(out,open(dst,"w"),indent=1)
print(out["status"], c)
PY
rm -rf $S /verif/work/*.seed$$ /verif/replays.seed$$
