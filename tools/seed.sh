#!/bin/bash
# usage: seed.sh <PROP> <i>   -- confirm /tmp/mut-PROP-i.{patch,json} + demo, evaluate with all 17 checks,
# store under /verif/seeded/PROP-i.
# Confirms: applies to /repo HEAD, builds (with and without -tags verif), existing tests pass,
# demo passes on the unchanged tree and fails with the change.
export GOFLAGS=-mod=mod GOPROXY=off GOSUMDB=off GOTOOLCHAIN=local
P=$1; I=$2; PFX=${3:-mut}; TAGI=$I; [ "$PFX" = "mut2" ] && TAGI=b$I; [ "$PFX" = "mut3" ] && TAGI=c$I; [ "$PFX" = "mut4" ] && TAGI=d$I; [ "$PFX" = "mut5" ] && TAGI=e$I; [ "$PFX" = "mut6" ] && TAGI=f$I
patch=/tmp/$PFX-$P-$I.patch; meta=/tmp/$PFX-$P-$I.json
demo=/tmp/$PFX-$P-${I}_demo_test.go
S=/var/tmp/bipverif-seed-$$; rm -rf $S; mkdir -p $S; rsync -a --exclude .git /repo/ $S/
pkgdir=.; grep -q '^package main' $demo 2>/dev/null && pkgdir=./update-wordlist
demoname=$(grep -o 'func TestDemo[A-Za-z0-9_]*' $demo | head -1 | sed 's/func //')
race=""; grep -q -- '-race' $meta && race="-race"
rundemo() { cp $demo $S/$pkgdir/zz_demo_test.go; (cd $S && go test $race -count=1 -run "^${demoname}\$" $pkgdir > $1 2>&1); r=$?; rm -f $S/$pkgdir/zz_demo_test.go; return $r; }
rundemo /tmp/seed-clean-$$.log; clean=$?
(cd $S && patch -p1 -s < $patch) || { echo "PATCH DOES NOT APPLY"; rm -rf $S; exit 3; }
(cd $S && go build ./... && go build -tags verif ./...) || { echo "DOES NOT COMPILE (with or without verif tag)"; rm -rf $S; exit 3; }
(cd $S && go test -count=1 ./... >/tmp/seed-suite-$$.log 2>&1); suite=$?
rundemo /tmp/seed-mut-$$.log; mut=$?
echo "confirm: demo-on-clean exit=$clean (want 0) suite-with-change exit=$suite (want 0) demo-with-change exit=$mut (want !=0)"
if [ $clean -ne 0 ] || [ $suite -ne 0 ] || [ $mut -eq 0 ]; then echo "NOT CONFIRMED"; tail -5 /tmp/seed-clean-$$.log /tmp/seed-suite-$$.log /tmp/seed-mut-$$.log; rm -rf $S /tmp/seed-*-$$.log; exit 4; fi
VERIF_REPO=$S VERIF_WORK_SUFFIX=.seed$$ /verif/bin/bipverif.seed matrix -replay $P > /tmp/seed-matrix-$$.log 2>&1
grep '^MATRIX' /tmp/seed-matrix-$$.log | cut -c1-300
d=/verif/seeded/$P-$TAGI; mkdir -p $d; cp $patch $d/patch.diff; cp $demo $d/demo_test.go
python3 - "$meta" "$d/meta.json" "$P" "$TAGI" "$race" "$pkgdir" /tmp/seed-matrix-$$.log <<'PY'
import json,sys,re
src,dst,P,I,race,pkgdir,log=sys.argv[1:8]
out=open(log).read()
m=json.load(open(src))
rows={}
for l in out.split('\n'):
    mm=re.match(r'MATRIX (C\d+) violations=(\d+) with-input=(\d+) :: (.*)',l)
    if mm: rows[mm.group(1)]={"violated_obligations":int(mm.group(2)),"with_failing_input":int(mm.group(3)),"first":mm.group(4)[:300]}
c=sorted(rows)
res={"id":f"{P}-{I}","property":P,"summary":m.get("summary",""),"needs":m.get("needs",""),
 "origin":m.get("origin","independent sub-agent given only the property text and a scratch worktree of /repo without the verif files"),
 "confirmed":"tools/seed.sh: patch applies to /repo HEAD; go build with and without -tags verif; existing suite passes with the change; demo passes on the unchanged tree and fails with the change",
 "demo_cmd":f"cp demo_test.go <tree>/{pkgdir}/zz_demo_test.go && go test {race} -count=1 -run TestDemo {pkgdir}",
 "checks_raising_violation":c,"detail":rows,
 "expect_properties":[P] if P in c else [],"status":"caught" if P in c else "MISSED"}
json.dump(res,open(dst,"w"),indent=1)
print("RESULT",P+"-"+I,res["status"],",".join(c), "target-with-input="+str(rows.get(P,{}).get("with_failing_input",0)))
PY
rm -rf $S /verif/work/*.seed$$ /verif/replays.seed$$ /tmp/seed-*-$$.log
