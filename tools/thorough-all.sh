#!/bin/bash
# runs the thorough tier of every property, three at a time; prints one line per property
cd /verif
run() { for p in "$@"; do ./run.sh $p thorough > /var/tmp/thorough-$p.log 2>&1; echo "$p exit=$? $(grep '^bipverif: property' /var/tmp/thorough-$p.log | tail -1 | cut -c1-150)"; done; }
run C13 C01 C04 C07 C10 C16 &
run C02 C05 C08 C11 C14 C17 &
run C03 C12 C06 C09 C15 &
wait
echo ALL-DONE
