#!/usr/bin/env python3
# Emits the markdown table of DESIGN.md section 11 from /verif/seeded/*/meta.json
import json,glob,os
rows=[]
for f in sorted(glob.glob('/verif/seeded/*/meta.json')):
    m=json.load(open(f))
    tgt=m['property']; det=m.get('detail',{})
    t=det.get(tgt,{})
    others=[p for p in m['checks_raising_violation'] if p!=tgt]
    first=t.get('first','').split(' ; ')[0] if t else ''
    rows.append((m['id'],m['summary'].replace('|','/')[:150],m['status'],('yes' if t.get('with_failing_input',0)>0 else 'no') if t else '-',first[:80],','.join(others)))
print('| id | change (one line) | target check | failing input replayed | first obligation reported | other checks that also report |')
print('|---|---|---|---|---|---|')
for r in rows: print('| '+' | '.join(r)+' |')
caught=sum(1 for r in rows if r[2]=='caught')
print(f'\n{caught} of {len(rows)} seeded changes are reported by the check of the property they were written against; '
      f'{sum(1 for r in rows if r[3]=="yes")} with a failing input replayed on the real code.')
