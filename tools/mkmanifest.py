#!/usr/bin/env python3
# Regenerates MANIFEST.json from the table below (kept valid against the schema at all times).
import json, subprocess
props=[json.loads(l) for l in open('/verif/properties.jsonl')]
claimed = {
 "C01": ("proof", "functional postconditions on NewMnemonicByEntropy / fromEntropy (loop invariant over shr11) / Language.list, discharged per entropy size for symbolic entropy and language", "4 C01"),
 "C02": ("proof", "ghost clients verifRoundTrip* proved against the contracts of NewMnemonicByEntropy/NewMnemonic and CheckMnemonic/IsMnemonicValid (acc/shr11 ground-unfolded per size), plus CheckMnemonic's own clauses F1-F4 and the ten map-builder closures", "4 C02"),
 "C03": ("proof", "clauses F1-F4 of CheckMnemonic (loop invariant over acc), IsMnemonicValid iff-clause, verifBoolean, arithmetic count lemma, mapping closures", "4 C03"),
 "C04": ("proof", "postcondition of straight-line MnemonicToSeed against uninterpreted pbkdf2/nfkd with the NFKD ASCII-prefix axiom; PBKDF2/NFKD themselves are assumed; a bounded conformance audit of the NFKD assumption (x/text vs python3 unicodedata) runs alongside and carries one open known finding (stream-safe NFKD for runs of more than 30 combining marks)", "4 C04, 5"),
 "C05": ("proof", "ghost client verifLossless: spec decoder applied to the postcondition of NewMnemonicByEntropy returns the entropy; uses list distinctness (ground)", "4 C05"),
 "C06": ("proof", "postconditions of NewMnemonic (fail-closed clause, exact-bytes clause); io.ReadFull and io.ReadAtLeast (standard library source) are verified too, against the stream contract of a source's Read method, which is the only assumption about the source", "4 C06, 10"),
 "C07": ("proof", "package initialiser symbolically executed: source variable == crypto/rand.Reader; no writer outside init (discipline scan); NewMnemonic postcondition mentions only the stream", "4 C07"),
 "C08": ("proof", "ground obligations over the ten composite literals (2048 x 10, exhaustive, by evaluation) plus list/mapping contracts tying data to the API", "4 C08"),
 "C09": ("proof", "gate postconditions of NewMnemonicByEntropy / NewMnemonic over exact 64-bit arithmetic, sentinel facts from init", "4 C09"),
 "C10": ("proof", "two-call ghost client verifSameVerdict over CheckMnemonic's contract (a function of nfkd(m))", "4 C10"),
 "C11": ("proof", "two-call ghost client verifSameSeed over MnemonicToSeed's contract", "4 C11"),
 "C12": ("proof", "ownership/frame discipline obligations over the SSA of every function (writers, no-escape, reads dominated by Once.Do, one Once per variable, subset gate) plus all frame obligations; proves a sufficient discipline for all schedules under the assumed sync.Once contract and Go memory model - schedules are NOT explored", "4 C12"),
 "C13": ("proof", "frame (assigns) obligations on every function, global invariants preserved, history ghost clients verifHistory* with an arbitrary intervening API call", "4 C13"),
 "C14": ("proof", "safety obligations at every instruction of every function reachable from the API (bounds, nil, division, make, callee preconditions) and loop variants", "4 C14"),
 "C15": ("proof", "refined postconditions F1-F3 of CheckMnemonic incl. message content of the unknown-word error", "4 C15"),
 "C17": ("other", "mixed: glue contract of updateWordlist and the langs table are proved (deductive); the output of html/template.Execute is checked by a BOUNDED run of the real tool (200 files quick / 5000 thorough) and is never counted as proved", "4 C17"),
 "C16": ("proof", "postcondition of Language.String against the constant block read by go/types; native SMT strings", "4 C16"),
}
try:
    repo_commits=subprocess.check_output(['git','-C','/repo','log','--format=%H %s','4c2f60c..HEAD'],text=True).strip().split('\n')
except Exception:
    repo_commits=[]
hooks=[c.split()[0] for c in repo_commits if c and c.split(' ',1)[1].startswith('verif:')]
checks=[]
for pid,(cat,text,ref) in claimed.items():
    checks.append({
      "property_id":pid,
      "quick_cmd":f"./run.sh {pid} quick",
      "thorough_cmd":f"./run.sh {pid} thorough",
      "evidence_file":f"/verif/evidence/{pid}.json",
      "replay_cmd_template":"./bin/bipverif replay {path}",
      "engine":"bipverif",
      "level_claimed":{"category":cat,"text":text,"design_ref":"DESIGN.md section "+ref},
      "level_note":"trusted: go/ssa translation, the VC generator and prelude, the SMT solvers; assumed: contracts of dependency functions (math/big, sha256, strings, x/text NFKD, pbkdf2, io.ReadFull, sync.Once, fmt/errors) as listed in the evidence file",
      "technique":"contract-based deductive verification: weakest-precondition style VCs generated from go/ssa of the real code, discharged by z3/cvc5",
    })
na=[{"property_id":p["id"],"reason":"check not built yet in this round (planned: "+("ownership/frame discipline obligations" if p["id"]=="C12" else "glue contracts + bounded template run")+")"} for p in props if p["id"] not in claimed]
m={"version":1,
"setup_cmd":"cd /verif && GOFLAGS=-mod=vendor GOPROXY=off GOSUMDB=off GOTOOLCHAIN=local go build -o bin/bipverif ./cmd/bipverif",
"hooks":{"guard":"verif","enable":"go build -tags verif: /repo/verif_contracts.go (comment-only contracts) and /repo/verif_lemmas.go (ghost client functions) are compiled only under the tag","baseline_off_cmd":"cd /repo && GOFLAGS=-mod=mod GOPROXY=off GOSUMDB=off GOTOOLCHAIN=local go test -json -vet=off -count=1 ./...","source_commits":hooks,"add_only":True},
"engines":[{"name":"bipverif","path":"/verif/cmd/bipverif","serves_properties":sorted(claimed.keys()),"kind_free_text":"VC generator for Go (go/ssa naive form, forward symbolic execution, loops cut at invariants, modular call rule) + SMT portfolio (z3 4.8.12, z3 5.1.0, cvc5 1.0.3)"}],
"checks":checks,
"notes":"see DESIGN.md; fix: commits in /repo: stringer regeneration, CheckMnemonic entropy padding",
"not_applicable":na}
json.dump(m,open('/verif/MANIFEST.json','w'),indent=1)
print(len(checks),"checks")
