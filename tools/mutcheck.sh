#!/bin/bash
# usage: mutcheck.sh <patchfile|-e file sedexpr> props...  : apply to scratch copy, run checks for props
set -e
S=/var/tmp/bipverif-mut-$$
rm -rf $S; mkdir -p $S; rsync -a --exclude .git /repo/ $S/
if [ "$1" = "-e" ]; then f=$2; e=$3; shift 3; sed -i -E "$e" $S/$f; if diff -q /repo/$f $S/$f >/dev/null; then echo "MUTATION DID NOT APPLY"; rm -rf $S; exit 3; fi
else (cd $S && patch -p1 -s < $1); shift; fi
(cd $S && GOFLAGS=-mod=mod GOPROXY=off GOSUMDB=off GOTOOLCHAIN=local go build ./... && GOFLAGS=-mod=mod GOPROXY=off go test -count=1 . 2>&1 | tail -1) || { echo "DOES NOT COMPILE/TEST"; }
for p in "$@"; do VERIF_REPO=$S /verif/run.sh $p 2>&1 | grep -E "VIOLATION|^bipverif: property" | cut -c1-260 | head -6; done
rm -rf $S
